(* json.loads (Model/JsonLoads.v) reads back what json.dumps writes: string escapes, atoms, the lexer on rendered
   values, the parser on token sequences. *)
From Coq Require Import List NArith ZArith Bool Arith Lia.
From PV Require Import Base.Bytes Base.Lit Base.Json Model.Pretty Model.JsonLoads
                       Proofs.BytesFacts Proofs.PrettyFacts Proofs.NumberFacts Proofs.NumberDistinct.
Import ListNotations.
Open Scope N_scope.

(* ---- Part A: string bodies ---- *)
Definition esc (s : text) : text := flat_map esc_char s.

(* a Python str that json round-trips: code points below 0x110000, and no high surrogate directly followed by a low one
   (json.dumps writes the two as \uD8xx\uDCxx, which json.loads - like CPython itself - reads as ONE character).
   Lone surrogates are fine. *)
Fixpoint no_pair (s : text) : Prop :=
  match s with
  | c :: t => match t with d :: _ => (is_high c = true -> is_low d = false) | [] => True end /\ no_pair t
  | [] => True
  end.
Definition wf_str (s : text) : Prop := Forall (fun c => c < 1114112) s /\ no_pair s.

Lemma jhexval_hexdigL n : n < 16 -> jhexval (hexdigL n) = Some n.
Proof.
  intros H. unfold jhexval, hexdigL. destruct (N.ltb_spec n 10) as [Hl|Hl].
  - replace ((48 <=? 48 + n) && (48 + n <=? 57)) with true by (symmetry; apply andb_true_intro; split; apply N.leb_le; lia).
    f_equal. lia.
  - replace ((48 <=? 87 + n) && (87 + n <=? 57)) with false
      by (symmetry; apply andb_false_iff; right; apply N.leb_gt; lia).
    replace ((97 <=? 87 + n) && (87 + n <=? 102)) with true by (symmetry; apply andb_true_intro; split; apply N.leb_le; lia).
    f_equal. lia.
Qed.

Lemma hex_fixed4 v : hex_fixed hexdigL 4 v =
  [hexdigL (v / 16 / 16 / 16 mod 16); hexdigL (v / 16 / 16 mod 16); hexdigL (v / 16 mod 16); hexdigL (v mod 16)].
Proof. reflexivity. Qed.

Lemma hex4_fixed v : v < 65536 ->
  exists a b c d, hex_fixed hexdigL 4 v = [a; b; c; d] /\ hex4 a b c d = Some v.
Proof.
  intros H. rewrite hex_fixed4. do 4 eexists. split; [reflexivity|]. unfold hex4.
  rewrite !jhexval_hexdigL by (apply N.mod_lt; lia). f_equal.
  pose proof (N.div_mod v 16 ltac:(lia)). pose proof (N.div_mod (v / 16) 16 ltac:(lia)).
  pose proof (N.div_mod (v / 16 / 16) 16 ltac:(lia)).
  assert (v / 16 / 16 / 16 < 16).
  { apply N.div_lt_upper_bound; [lia|]. apply N.div_lt_upper_bound; [lia|]. apply N.div_lt_upper_bound; lia. }
  rewrite (N.mod_small (v / 16 / 16 / 16) 16) by assumption. lia.
Qed.

Lemma u4_shape v : v < 65536 -> exists a b c d, u4 v = [92; 117; a; b; c; d] /\ hex4 a b c d = Some v.
Proof.
  intros H. destruct (hex4_fixed v H) as (a & b & c & d & E & Hx). exists a, b, c, d. split; [|exact Hx].
  unfold u4. rewrite E. reflexivity.
Qed.

Lemma unescape_step_plain f c t : (c =? 92) = false ->
  unescape (S f) (c :: t) = option_map (cons c) (unescape f t).
Proof. intros H. cbn [unescape]. rewrite H. reflexivity. Qed.

Lemma unescape_step_u f a b c d v t : hex4 a b c d = Some v -> is_high v = false ->
  unescape (S f) (92 :: 117 :: a :: b :: c :: d :: t) = option_map (cons v) (unescape f t).
Proof.
  intros Hx Hh. cbn [unescape]. change (92 =? 92) with true. change (117 =? 117) with true. cbv iota.
  rewrite Hx, Hh. reflexivity.
Qed.

Lemma unescape_step_pair f a b c d hi a2 b2 c2 d2 lo t :
  hex4 a b c d = Some hi -> is_high hi = true -> hex4 a2 b2 c2 d2 = Some lo -> is_low lo = true ->
  unescape (S f) (92 :: 117 :: a :: b :: c :: d :: 92 :: 117 :: a2 :: b2 :: c2 :: d2 :: t) =
  option_map (cons (join_pair hi lo)) (unescape f t).
Proof.
  intros Hx Hh Hx2 Hl. cbn [unescape]. change (92 =? 92) with true. change (117 =? 117) with true. cbv iota.
  rewrite Hx, Hh. cbn [u_escape]. change (92 =? 92) with true. change (117 =? 117) with true. cbn [andb].
  rewrite Hx2, Hl. reflexivity.
Qed.

Lemma unescape_mono : forall f l r, unescape f l = Some r -> forall f', (f <= f')%nat -> unescape f' l = Some r.
Proof.
  induction f as [|f IH]; intros l r H f' Hf.
  - destruct l; [|discriminate]. destruct f'; exact H.
  - destruct f' as [|f']; [lia|]. assert (Hf' : (f <= f')%nat) by lia.
    destruct l as [|c t]; [exact H|]. cbn [unescape] in *.
    assert (OM: forall x l0, option_map (cons x) (unescape f l0) = Some r -> option_map (cons x) (unescape f' l0) = Some r).
    { intros x l0 E. destruct (unescape f l0) as [u|] eqn:Eu; [|discriminate]. rewrite (IH _ _ Eu f' Hf'). exact E. }
    destruct (c =? 92); [|apply OM; exact H].
    destruct t as [|e t1]; [exact H|]. destruct (e =? 117).
    + destruct t1 as [|x1 [|x2 [|x3 [|x4 t2]]]]; try exact H.
      destruct (hex4 x1 x2 x3 x4) as [v|]; [|exact H]. destruct (is_high v); [|apply OM; exact H].
      destruct (u_escape t2) as [[v2 t3]|]; [|apply OM; exact H]. destruct (is_low v2); apply OM; exact H.
    + destruct (simple_esc e); [apply OM; exact H|exact H].
Qed.

Lemma unescape_step_short f l v t : (l =? 117) = false -> simple_esc l = Some v ->
  unescape (S f) (92 :: l :: t) = option_map (cons v) (unescape f t).
Proof. intros Hl Hs. cbn [unescape]. change (92 =? 92) with true. cbv iota. rewrite Hl, Hs. reflexivity. Qed.

Lemma short_esc_spec c l : short_esc c = Some l -> (l =? 117) = false /\ simple_esc l = Some c /\ 32 <= l.
Proof.
  unfold short_esc. intros H.
  repeat match type of H with (if ?c =? ?k then _ else _) = _ => destruct (N.eqb_spec c k); [subst; injection H as <-; repeat split; (reflexivity || discriminate)|] end.
  discriminate.
Qed.

Lemma short_esc_none c : short_esc c = None -> c <> 34 /\ c <> 92.
Proof.
  unfold short_esc. intros H. destruct (N.eqb_spec c 34); [discriminate|]. destruct (N.eqb_spec c 92); [discriminate|]. split; assumption.
Qed.

Lemma is_low_not_high v : is_low v = true -> is_high v = false.
Proof.
  unfold is_low, is_high. intros H. apply andb_prop in H. destruct H as [H _]. apply N.leb_le in H.
  apply andb_false_iff. right. apply N.leb_gt. lia.
Qed.

(* what a \uXXXX escape at the head of the rest of an escaped string can be *)
Lemma u_escape_esc s : match s with d :: _ => d < 1114112 | [] => True end ->
  match u_escape (esc s) with
  | Some (v2, _) => match s with d :: _ => is_low v2 = true -> is_low d = true | [] => False end
  | None => True
  end.
Proof.
  destruct s as [|d s']; intros Hd; [exact I|]. change (esc (d :: s')) with (esc_char d ++ esc s'). unfold esc_char.
  destruct (short_esc d) as [l|] eqn:Es.
  { destruct (short_esc_spec d l Es) as (Hl & _ & _). cbn [app u_escape]. destruct (esc s') as [|x1 [|x2 [|x3 [|x4 r]]]]; try exact I.
    change (92 =? 92) with true. rewrite Hl. exact I. }
  destruct ((d <? 32) || (127 <=? d)) eqn:Ee.
  - destruct (N.ltb_spec d 65536) as [Hb|Hb].
    + destruct (u4_shape d Hb) as (x1 & x2 & x3 & x4 & Eu & Hx). rewrite Eu. cbn [app u_escape].
      change (92 =? 92) with true. change (117 =? 117) with true. cbn [andb]. rewrite Hx. intros H. exact H.
    + set (v := d - 65536). assert (Hq: v / 1024 < 1024) by (apply N.div_lt_upper_bound; unfold v; lia).
      destruct (u4_shape (55296 + v / 1024) ltac:(lia)) as (x1 & x2 & x3 & x4 & Eu & Hx). fold v. rewrite Eu. cbn [app u_escape].
      change (92 =? 92) with true. change (117 =? 117) with true. cbn [andb]. rewrite Hx. intros H. exfalso.
      unfold is_low in H. apply andb_prop in H. destruct H as [H _]. apply N.leb_le in H. lia.
  - cbn [app u_escape]. destruct (short_esc_none d Es) as [_ E92]. destruct (esc s') as [|x1 [|x2 [|x3 [|x4 [|x5 r]]]]]; try exact I.
    replace (d =? 92) with false by (symmetry; apply N.eqb_neq; exact E92). exact I.
Qed.

Theorem unescape_esc : forall s, wf_str s -> forall f, (length (esc s) <= f)%nat -> unescape f (esc s) = Some s.
Proof.
  induction s as [|c s IH]; intros [Hb Hp] f Hf.
  - destruct f; reflexivity.
  - inversion Hb as [|? ? Hc Hs]; subst. cbn [no_pair] in Hp. destruct Hp as [Hpair Hp']. specialize (IH (conj Hs Hp')).
    change (esc (c :: s)) with (esc_char c ++ esc s) in *. rewrite app_length in Hf. unfold esc_char in *.
    destruct (short_esc c) as [l|] eqn:Es.
    { destruct (short_esc_spec c l Es) as (Hl & Hv & _). cbn [app length] in *. destruct f as [|f]; [lia|].
      rewrite (unescape_step_short f l c (esc s) Hl Hv). rewrite IH by lia. reflexivity. }
    destruct ((c <? 32) || (127 <=? c)) eqn:Ee.
    + destruct (N.ltb_spec c 65536) as [Hlt|Hge].
      * destruct (u4_shape c Hlt) as (x1 & x2 & x3 & x4 & Eu & Hx). rewrite Eu in *. cbn [app length] in *.
        destruct f as [|f]; [lia|]. destruct (is_high c) eqn:Hh.
        -- (* a lone high surrogate: whatever follows is not a low surrogate escape *)
           cbn [unescape]. change (92 =? 92) with true. change (117 =? 117) with true. cbv iota. rewrite Hx, Hh.
           pose proof (u_escape_esc s) as U.
           assert (Hd: match s with d :: _ => d < 1114112 | [] => True end) by (destruct s; [exact I|inversion Hs; assumption]).
           specialize (U Hd). destruct (u_escape (esc s)) as [[v2 t3]|].
           ++ destruct s as [|d s']; [contradiction|]. destruct (is_low v2) eqn:Hl2.
              ** specialize (U eq_refl). rewrite (Hpair eq_refl) in U. discriminate.
              ** rewrite IH by lia. reflexivity.
           ++ rewrite IH by lia. reflexivity.
        -- rewrite (unescape_step_u f x1 x2 x3 x4 c (esc s) Hx Hh). rewrite IH by lia. reflexivity.
      * set (v := c - 65536) in *.
        assert (Hq: v / 1024 < 1024) by (apply N.div_lt_upper_bound; lia).
        assert (Hm: v mod 1024 < 1024) by (apply N.mod_lt; lia).
        destruct (u4_shape (55296 + v / 1024) ltac:(lia)) as (x1 & x2 & x3 & x4 & Eu & Hx).
        destruct (u4_shape (56320 + v mod 1024) ltac:(lia)) as (y1 & y2 & y3 & y4 & Eu2 & Hy).
        rewrite Eu, Eu2 in *. cbn [app length] in *. destruct f as [|f]; [lia|].
        rewrite (unescape_step_pair f x1 x2 x3 x4 (55296 + v / 1024) y1 y2 y3 y4 (56320 + v mod 1024) (esc s) Hx); [| |exact Hy|].
        -- rewrite IH by lia. cbn [option_map]. f_equal. f_equal. unfold join_pair.
           pose proof (N.div_mod v 1024 ltac:(lia)). lia.
        -- unfold is_high. apply andb_true_intro. split; apply N.leb_le; lia.
        -- unfold is_low. apply andb_true_intro. split; apply N.leb_le; lia.
    + cbn [app length] in *. destruct f as [|f]; [lia|]. rewrite unescape_step_plain.
      * rewrite IH by lia. reflexivity.
      * apply N.eqb_neq. apply (short_esc_none c Es).
Qed.

Corollary str_of_esc s : wf_str s -> str_of (esc s) = Some s.
Proof. intros H. apply unescape_esc; [exact H|lia]. Qed.

(* ---- Part B: atoms ---- *)
Lemma jdigit_bounds c : jdigit c = true -> 48 <= c <= 57.
Proof. unfold jdigit. intros H. apply andb_prop in H. destruct H as [H1 H2]. apply N.leb_le in H1, H2. lia. Qed.

Lemma dec_fuel_lead : forall f v, 1 <= v -> v < 10 ^ N.of_nat f -> exists c t, dec_fuel f v [] = c :: t /\ c <> 48.
Proof.
  induction f as [|f IH]; intros v H1 Hv; [simpl in Hv; lia|]. cbn [dec_fuel].
  destruct (N.ltb_spec v 10) as [Hl|Hl].
  - exists (48 + v mod 10), []. split; [reflexivity|]. rewrite N.mod_small by assumption. lia.
  - rewrite dec_fuel_acc. rewrite Nat2N.inj_succ, N.pow_succ_r' in Hv.
    assert (Hq: v / 10 < 10 ^ N.of_nat f) by (apply N.div_lt_upper_bound; lia).
    assert (1 <= v / 10) by (apply N.div_le_lower_bound; lia).
    destruct (IH (v / 10) H Hq) as (c & t & E & Hc). rewrite E. exists c, (t ++ [48 + v mod 10]). split; [reflexivity|exact Hc].
Qed.

Lemma dec_int_part n : int_part_ok (dec n) = true.
Proof.
  destruct (N.eq_dec n 0) as [->|Hn]; [reflexivity|].
  destruct (dec_fuel_lead (S (N.to_nat (N.size n))) n ltac:(lia) (size_pow10 n)) as (c & t & E & Hc).
  unfold dec. rewrite E. unfold int_part_ok. destruct (N.eqb_spec c 48); [contradiction|reflexivity].
Qed.

Lemma atom_digits ds : forallb jdigit ds = true -> int_part_ok ds = true ->
  atom ds = if Nat.ltb max_int_digits (length ds) then ATooLong else AVal (JNum (Z.of_N (dec_val 0 ds))).
Proof.
  intros Hd Hi. destruct ds as [|c t]; [discriminate|]. cbn [forallb] in Hd. apply andb_prop in Hd. destruct Hd as [Hc Ht].
  apply jdigit_bounds in Hc. unfold atom.
  let x := eval vm_compute in (L "null") in change (L "null") with x.
  let x := eval vm_compute in (L "true") in change (L "true") with x.
  let x := eval vm_compute in (L "false") in change (L "false") with x.
  let x := eval vm_compute in (L "NaN") in change (L "NaN") with x.
  let x := eval vm_compute in (L "Infinity") in change (L "Infinity") with x.
  let x := eval vm_compute in (L "-Infinity") in change (L "-Infinity") with x.
  cbn [text_eqb].
  repeat match goal with |- context [c =? ?k] => replace (c =? k) with false by (symmetry; apply N.eqb_neq; lia) end.
  cbn [andb orb]. unfold strip_minus.
  replace (c =? 45) with false by (symmetry; apply N.eqb_neq; lia).
  cbn [forallb]. replace (jdigit c) with true by (symmetry; unfold jdigit; apply andb_true_intro; split; apply N.leb_le; lia).
  rewrite Ht, Hi. reflexivity.
Qed.

Lemma atom_neg_digits ds : forallb jdigit ds = true -> int_part_ok ds = true ->
  atom (45 :: ds) = if Nat.ltb max_int_digits (length ds) then ATooLong else AVal (JNum (Z.opp (Z.of_N (dec_val 0 ds)))).
Proof.
  intros Hd Hi. destruct ds as [|c t]; [discriminate|]. pose proof Hd as Hd0. cbn [forallb] in Hd. apply andb_prop in Hd. destruct Hd as [Hc Ht].
  apply jdigit_bounds in Hc. unfold atom.
  let x := eval vm_compute in (L "null") in change (L "null") with x.
  let x := eval vm_compute in (L "true") in change (L "true") with x.
  let x := eval vm_compute in (L "false") in change (L "false") with x.
  let x := eval vm_compute in (L "NaN") in change (L "NaN") with x.
  let x := eval vm_compute in (L "Infinity") in change (L "Infinity") with x.
  let x := eval vm_compute in (L "-Infinity") in change (L "-Infinity") with x.
  cbn [text_eqb]. change (45 =? 110) with false. change (45 =? 116) with false. change (45 =? 102) with false.
  change (45 =? 78) with false. change (45 =? 73) with false. change (45 =? 45) with true.
  replace (c =? 73) with false by (symmetry; apply N.eqb_neq; lia).
  cbn [andb orb]. unfold strip_minus. change (45 =? 45) with true. cbv iota.
  rewrite Hd0, Hi. reflexivity.
Qed.

Definition digits_ok (z : Z) : Prop := (length (dec (Z.abs_N z)) <= max_int_digits)%nat.

Lemma dec_val_dec n : dec_val 0 (dec n) = n.
Proof. exact (proj1 (dec_spec n)). Qed.
Lemma dec_all_digits n : forallb jdigit (dec n) = true.
Proof. exact (proj1 (proj2 (dec_spec n))). Qed.

Theorem atom_render_z z : digits_ok z -> atom (render_z z) = AVal (JNum z).
Proof.
  unfold digits_ok. intros H. destruct z as [|p|p]; cbn [render_z Z.abs_N] in *.
  - reflexivity.
  - rewrite atom_digits by (apply dec_all_digits || apply dec_int_part).
    destruct (Nat.ltb_spec max_int_digits (length (dec (N.pos p)))); [lia|]. rewrite dec_val_dec. reflexivity.
  - rewrite atom_neg_digits by (apply dec_all_digits || apply dec_int_part).
    destruct (Nat.ltb_spec max_int_digits (length (dec (N.pos p)))); [lia|]. rewrite dec_val_dec. reflexivity.
Qed.

(* ---- an induction principle for json (nested lists) ---- *)
Section JsonInd.
  Variable P : json -> Prop.
  Hypothesis Hnull : P JNull.
  Hypothesis Hbool : forall b, P (JBool b).
  Hypothesis Hnum : forall z, P (JNum z).
  Hypothesis Hfloat : forall r, P (JFloat r).
  Hypothesis Hstr : forall s, P (JStr s).
  Hypothesis Harr : forall l, Forall P l -> P (JArr l).
  Hypothesis Hobj : forall l, Forall (fun kv => P (snd kv)) l -> P (JObj l).
  Fixpoint json_ind2 (j : json) : P j :=
    match j with
    | JNull => Hnull
    | JBool b => Hbool b
    | JNum z => Hnum z
    | JFloat r => Hfloat r
    | JStr s => Hstr s
    | JArr l => Harr l ((fix go (l : list json) : Forall P l :=
                           match l with [] => Forall_nil P | x :: t => Forall_cons x (json_ind2 x) (go t) end) l)
    | JObj l => Hobj l ((fix go (l : list (text * json)) : Forall (fun kv => P (snd kv)) l :=
                           match l with [] => Forall_nil _ | x :: t => Forall_cons x (json_ind2 (snd x)) (go t) end) l)
    end.
End JsonInd.

(* ---- Part C: the token sequence of a value, and the lexer on printed values ---- *)
Definition member_toks (toks : json -> list tok) (kv : text * json) : list tok := TStr (esc (fst kv)) :: TP 58 :: toks (snd kv).

Fixpoint toks (j : json) : list tok :=
  match j with
  | JNull => [TAtom (L "null")]
  | JBool true => [TAtom (L "true")]
  | JBool false => [TAtom (L "false")]
  | JNum z => [TAtom (render_z z)]
  | JFloat raw => [TAtom raw]
  | JStr s => [TStr (esc s)]
  | JArr l => TP 91 :: sep_tokens (map toks l) ++ [TP 93]
  | JObj l => TP 123 :: sep_tokens (map (fun kv => TStr (esc (fst kv)) :: TP 58 :: toks (snd kv)) l) ++ [TP 125]
  end.

Definition delim (c : N) : bool := is_ws c || is_punct c.
Definition dstep (c : N) (ts : list tok) : st := if is_ws c then (Out, ts) else (Out, TP c :: ts).

(* text t, followed by any delimiter, lexes to the tokens T *)
Definition lexes (t : text) (T : list tok) : Prop :=
  forall ts c rest, delim c = true -> run (Out, ts) (t ++ c :: rest) = run (dstep c (rev T ++ ts)) rest.

Lemma delim_not_quote c : delim c = true -> (c =? q) = false.
Proof.
  unfold delim, is_ws, is_punct, q. intros H. destruct (N.eqb_spec c 34) as [->|]; [|reflexivity]. discriminate H.
Qed.

Lemma step_out_delim ts c : delim c = true -> step (Out, ts) c = Some (dstep c ts).
Proof.
  intros H. cbn [step]. unfold dstep. destruct (is_ws c) eqn:Ew; [reflexivity|].
  rewrite (delim_not_quote c H). unfold delim in H. rewrite Ew in H. cbn [orb] in H. rewrite H. reflexivity.
Qed.

Definition atomic (c : N) : bool := negb (is_ws c) && negb (c =? q) && negb (is_punct c).

Lemma run_atom : forall a acc ts k, forallb atomic a = true ->
  run (InAtom acc, ts) (a ++ k) = run (InAtom (rev a ++ acc), ts) k.
Proof.
  induction a as [|x a IH]; intros acc ts k H; [reflexivity|]. cbn [forallb] in H. apply andb_prop in H. destruct H as [Hx Ha].
  unfold atomic in Hx. apply andb_prop in Hx. destruct Hx as [Hx Hp]. apply andb_prop in Hx. destruct Hx as [Hw Hq].
  apply negb_true_iff in Hw, Hq, Hp. cbn [app run step]. rewrite Hw, Hq, Hp. rewrite IH by assumption.
  cbn [rev]. rewrite <- app_assoc. reflexivity.
Qed.

Lemma lexes_atom a : a <> [] -> forallb atomic a = true -> lexes a [TAtom a].
Proof.
  intros Hn Ha ts c rest Hc. destruct a as [|x a]; [congruence|]. pose proof Ha as Ha0.
  cbn [forallb] in Ha. apply andb_prop in Ha. destruct Ha as [Hx Ha].
  unfold atomic in Hx. apply andb_prop in Hx. destruct Hx as [Hx Hp]. apply andb_prop in Hx. destruct Hx as [Hw Hq].
  apply negb_true_iff in Hw, Hq, Hp. cbn [app run]. cbn [step]. rewrite Hw, Hq, Hp.
  rewrite run_atom by assumption. cbn [run step]. rewrite (delim_not_quote c Hc). unfold dstep.
  rewrite !frev_rev. rewrite rev_app_distr, rev_involutive. cbn [rev app].
  destruct (is_ws c) eqn:Ew; [reflexivity|]. unfold delim in Hc. rewrite Ew in Hc. cbn [orb] in Hc. rewrite Hc. reflexivity.
Qed.

(* string bodies *)
Definition plain (c : N) : Prop := 32 <= c /\ c <> 34 /\ c <> 92.

Lemma run_instr_plain : forall l acc ts k, Forall plain l ->
  run (InStr acc, ts) (l ++ k) = run (InStr (rev l ++ acc), ts) k.
Proof.
  induction l as [|x l IH]; intros acc ts k H; [reflexivity|]. inversion H as [|? ? Hx Hl]; subst. destruct Hx as (H1 & H2 & H3).
  cbn [app run step]. unfold q, bs. destruct (N.eqb_spec x 34); [contradiction|]. destruct (N.eqb_spec x 92); [contradiction|].
  destruct (N.ltb_spec x 32); [lia|]. rewrite IH by assumption. cbn [rev]. rewrite <- app_assoc. reflexivity.
Qed.

Lemma hexdigL_plain n : n < 16 -> plain (hexdigL n).
Proof. intros H. unfold plain, hexdigL. destruct (N.ltb_spec n 10); lia. Qed.

Lemma hex_fixed4_plain v : Forall plain (hex_fixed hexdigL 4 v).
Proof. rewrite hex_fixed4. repeat constructor; apply hexdigL_plain; apply N.mod_lt; lia. Qed.

Lemma run_instr_u4 v acc ts k : run (InStr acc, ts) (u4 v ++ k) = run (InStr (rev (u4 v) ++ acc), ts) k.
Proof.
  unfold u4. change (L "\u") with [92; 117]. cbn [app run step]. unfold q, bs.
  change (92 =? 34) with false. change (92 =? 92) with true. cbv iota. cbn [step]. change (117 <? 32) with false. cbv iota.
  rewrite run_instr_plain by apply hex_fixed4_plain. cbn [rev]. rewrite <- !app_assoc. reflexivity.
Qed.

Lemma run_instr_esc : forall s acc ts k, run (InStr acc, ts) (esc s ++ k) = run (InStr (rev (esc s) ++ acc), ts) k.
Proof.
  induction s as [|c s IH]; intros acc ts k; [reflexivity|].
  change (esc (c :: s)) with (esc_char c ++ esc s). rewrite <- app_assoc, rev_app_distr, <- app_assoc.
  assert (E: run (InStr acc, ts) (esc_char c ++ esc s ++ k) = run (InStr (rev (esc_char c) ++ acc), ts) (esc s ++ k)).
  { unfold esc_char. destruct (short_esc c) as [l|] eqn:Es.
    { destruct (short_esc_spec c l Es) as (_ & _ & Hl). cbn [app run step rev]. unfold q, bs.
      change (92 =? 34) with false. change (92 =? 92) with true. cbv iota. cbn [step].
      destruct (N.ltb_spec l 32); [lia|]. reflexivity. }
    destruct ((c <? 32) || (127 <=? c)) eqn:Ee.
    - destruct (c <? 65536).
      + apply run_instr_u4.
      + rewrite <- app_assoc, run_instr_u4, run_instr_u4, rev_app_distr, <- app_assoc. reflexivity.
    - apply orb_false_iff in Ee. destruct Ee as [E32 _]. apply N.ltb_ge in E32. destruct (short_esc_none c Es) as [E34 E92].
      apply (run_instr_plain [c]). constructor; [|constructor]. repeat split; assumption. }
  rewrite E. apply IH.
Qed.

Lemma lexes_str s : lexes (render_str s) [TStr (esc s)].
Proof.
  intros ts c rest Hc. unfold render_str. fold (esc s). cbn [app run]. cbn [step]. unfold is_ws, q. change (34 =? 32) with false.
  change (34 =? 9) with false. change (34 =? 10) with false. change (34 =? 13) with false. change (34 =? 34) with true. cbn [orb]. cbv iota.
  rewrite <- app_assoc, run_instr_esc. cbn [app run]. cbn [step]. unfold q. change (34 =? 34) with true. cbv iota.
  rewrite frev_rev, app_nil_r, rev_involutive. rewrite step_out_delim by assumption. reflexivity.
Qed.

(* ---- composition ---- *)
Definition all_ws (w : text) : Prop := Forall (fun c => is_ws c = true) w.

Lemma run_ws : forall w ts k, all_ws w -> run (Out, ts) (w ++ k) = run (Out, ts) k.
Proof.
  induction w as [|x w IH]; intros ts k H; [reflexivity|]. inversion H as [|? ? Hx Hw]; subst.
  cbn [app run step]. rewrite Hx. apply IH. exact Hw.
Qed.

Lemma lexes_ws_prefix w t T : all_ws w -> lexes t T -> lexes (w ++ t) T.
Proof. intros Hw Ht ts c rest Hc. rewrite <- app_assoc, run_ws by assumption. apply Ht. exact Hc. Qed.

Lemma punct_delim c : is_punct c = true -> delim c = true.
Proof. intros H. unfold delim. rewrite H. apply orb_true_r. Qed.
Lemma punct_dstep c ts : is_punct c = true -> dstep c ts = (Out, TP c :: ts).
Proof.
  intros H. unfold dstep. replace (is_ws c) with false; [reflexivity|].
  unfold is_punct, is_ws in *. symmetry.
  repeat match goal with |- context [c =? ?k] => destruct (N.eqb_spec c k); [subst; try discriminate H; try reflexivity|] end; reflexivity.
Qed.

(* a then punctuation p then blanks then b *)
Lemma lexes_cat a Ta p w b Tb : is_punct p = true -> all_ws w -> lexes a Ta -> lexes b Tb ->
  lexes (a ++ p :: w ++ b) (Ta ++ TP p :: Tb).
Proof.
  intros Hp Hw Ha Hb ts c rest Hc. rewrite <- app_assoc. cbn [app]. rewrite (Ha ts p _ (punct_delim p Hp)).
  rewrite punct_dstep by assumption. rewrite <- app_assoc, run_ws by assumption. rewrite (Hb _ c rest Hc).
  rewrite rev_app_distr. cbn [rev]. rewrite <- !app_assoc. reflexivity.
Qed.

Lemma lexes_join w : all_ws w -> forall items Ts, Forall2 lexes items Ts -> items <> [] ->
  lexes (join (44 :: w) items) (sep_tokens Ts).
Proof.
  intros Hw. induction items as [|d rest IH]; intros Ts H Hn; [congruence|].
  inversion H as [|? T ? Trest Hd Hrest]; subst. destruct rest as [|d2 rest].
  - inversion Hrest; subst. cbn [join sep_tokens]. exact Hd.
  - inversion Hrest as [|? T2 ? Trest2 Hd2 Hrest2]; subst. rewrite join_cons2, sep_tokens_cons2.
    change ((44 :: w) ++ join (44 :: w) (d2 :: rest)) with (44 :: w ++ join (44 :: w) (d2 :: rest)).
    apply lexes_cat; [reflexivity|exact Hw|exact Hd|]. apply IH; [exact Hrest|discriminate].
Qed.

(* open bracket, blanks, the inside, blanks, close bracket *)
Lemma lexes_bracket o cl wa inner wb T : is_punct o = true -> is_punct cl = true -> all_ws wa -> all_ws wb -> lexes inner T ->
  lexes (o :: wa ++ inner ++ wb ++ [cl]) (TP o :: T ++ [TP cl]).
Proof.
  intros Ho Hcl Hwa Hwb Hi ts c rest Hc. cbn [app run]. rewrite step_out_delim by (apply punct_delim; exact Ho).
  rewrite punct_dstep by assumption. rewrite <- !app_assoc, run_ws by assumption.
  assert (E: forall ts0, run (Out, ts0) (wb ++ [cl] ++ c :: rest) = run (dstep c (TP cl :: ts0)) rest).
  { intros ts0. rewrite run_ws by assumption. cbn [app run]. rewrite step_out_delim by (apply punct_delim; exact Hcl).
    rewrite punct_dstep by assumption. cbn [run]. rewrite step_out_delim by assumption. reflexivity. }
  destruct wb as [|x wb'].
  - cbn [app]. rewrite (Hi _ cl _ (punct_delim cl Hcl)). rewrite punct_dstep by assumption. cbn [run].
    rewrite step_out_delim by assumption. cbn [rev]. rewrite rev_app_distr. cbn [rev app]. rewrite <- !app_assoc. reflexivity.
  - inversion Hwb as [|? ? Hx Hwb']; subst. cbn [app].
    assert (Hdx: delim x = true) by (unfold delim; rewrite Hx; reflexivity).
    rewrite (Hi _ x _ Hdx). unfold dstep at 1. rewrite Hx.
    pose proof (E (rev T ++ [TP o] ++ ts)) as E'. rewrite run_ws in E' by assumption.
    rewrite run_ws by assumption. cbn [app] in *. cbn [run] in *. rewrite step_out_delim by (apply punct_delim; exact Hcl).
    rewrite punct_dstep by assumption. cbn [run]. rewrite step_out_delim by assumption.
    cbn [rev]. rewrite rev_app_distr. cbn [rev app]. rewrite <- !app_assoc. reflexivity.
Qed.

Lemma lexes_empty o cl : is_punct o = true -> is_punct cl = true -> lexes [o; cl] [TP o; TP cl].
Proof.
  intros Ho Hcl ts c rest Hc. cbn [app run]. rewrite step_out_delim by (apply punct_delim; exact Ho). rewrite punct_dstep by assumption.
  cbn [run]. rewrite step_out_delim by (apply punct_delim; exact Hcl). rewrite punct_dstep by assumption.
  cbn [run]. rewrite step_out_delim by assumption. reflexivity.
Qed.

(* ---- the lexer on json.dumps output, compact and indented ---- *)
Lemma existsb_false_Forall {A} (f : A -> bool) l : existsb f l = false -> Forall (fun x => f x = false) l.
Proof.
  induction l as [|x l IH]; intros H; [constructor|]. cbn [existsb] in H. apply orb_false_iff in H. destruct H. constructor; auto.
Qed.

Lemma jdigit_atomic c : jdigit c = true -> atomic c = true.
Proof.
  intros H. apply jdigit_bounds in H. unfold atomic, is_ws, is_punct, q.
  repeat match goal with |- context [c =? ?k] => replace (c =? k) with false by (symmetry; apply N.eqb_neq; lia) end. reflexivity.
Qed.

Lemma digits_atomic ds : forallb jdigit ds = true -> forallb atomic ds = true.
Proof.
  induction ds as [|c t IH]; intros H; [reflexivity|]. cbn [forallb] in *. apply andb_prop in H. destruct H as [Hc Ht].
  rewrite (jdigit_atomic c Hc), IH by assumption. reflexivity.
Qed.

Lemma render_z_atomic z : render_z z <> [] /\ forallb atomic (render_z z) = true.
Proof.
  destruct z as [|p|p]; cbn [render_z].
  - split; [discriminate|reflexivity].
  - split; [exact (proj2 (proj2 (dec_spec (N.pos p))))|apply digits_atomic, dec_all_digits].
  - split; [discriminate|]. cbn [forallb]. rewrite digits_atomic by apply dec_all_digits. reflexivity.
Qed.

Lemma ind_ws n : all_ws (ind n).
Proof. unfold ind, all_ws. apply Forall_forall. intros x Hx. apply repeat_spec in Hx. subst. reflexivity. Qed.

Lemma Forall2_map_lexes {A} (f : A -> text) (g : A -> list tok) l : Forall (fun x => lexes (f x) (g x)) l ->
  Forall2 lexes (map f l) (map g l).
Proof. induction 1; cbn [map]; constructor; assumption. Qed.

Lemma render_arr l : render (JArr l) = 91 :: [] ++ join [44] (map render l) ++ [] ++ [93].
Proof. reflexivity. Qed.
Lemma render_obj l : render (JObj l) =
  123 :: [] ++ join [44] (map (fun kv => render_str (fst kv) ++ 58 :: [] ++ render (snd kv)) l) ++ [] ++ [125].
Proof. reflexivity. Qed.

Theorem lexes_render : forall j, has_float j = false -> lexes (render j) (toks j).
Proof.
  induction j as [| b | z | r | s | l IH | l IH] using json_ind2; intros Hf.
  - apply lexes_atom; [discriminate|reflexivity].
  - destruct b; (apply lexes_atom; [discriminate|reflexivity]).
  - cbn [render toks]. destruct (render_z_atomic z). apply lexes_atom; assumption.
  - discriminate.
  - apply lexes_str.
  - cbn [has_float] in Hf. apply existsb_false_Forall in Hf. destruct l as [|x t].
    + apply (lexes_empty 91 93); reflexivity.
    + rewrite render_arr. cbn [toks]. apply lexes_bracket; try reflexivity; try constructor.
      apply (lexes_join []); [constructor| |discriminate]. apply Forall2_map_lexes.
      rewrite Forall_forall in *. intros v Hv. apply IH; [exact Hv|apply Hf; exact Hv].
  - cbn [has_float] in Hf. apply existsb_false_Forall in Hf. destruct l as [|x t].
    + apply (lexes_empty 123 125); reflexivity.
    + rewrite render_obj. cbn [toks]. apply lexes_bracket; try reflexivity; try constructor.
      apply (lexes_join []); [constructor| |discriminate].
      apply (Forall2_map_lexes (fun kv => render_str (fst kv) ++ 58 :: [] ++ render (snd kv))
                               (fun kv => TStr (esc (fst kv)) :: TP 58 :: toks (snd kv))).
      rewrite Forall_forall in *. intros kv Hkv.
      apply (lexes_cat (render_str (fst kv)) [TStr (esc (fst kv))] 58 [] (render (snd kv)) (toks (snd kv))); try reflexivity; try constructor.
      * apply lexes_str.
      * apply IH; [exact Hkv|apply (Hf kv); exact Hkv].
Qed.

Lemma dumps4_arr n x t : dumps4 n (JArr (x :: t)) =
  91 :: [10] ++ join [44; 10] (map (fun v => ind (S n) ++ dumps4 (S n) v) (x :: t)) ++ (10 :: ind n) ++ [93].
Proof. cbn [dumps4]. rewrite <- ?app_assoc. reflexivity. Qed.
Lemma dumps4_obj n x t : dumps4 n (JObj (x :: t)) =
  123 :: [10] ++ join [44; 10] (map (fun kv => ind (S n) ++ render_str (fst kv) ++ 58 :: [32] ++ dumps4 (S n) (snd kv)) (x :: t))
      ++ (10 :: ind n) ++ [125].
Proof. cbn [dumps4]. rewrite <- ?app_assoc. reflexivity. Qed.

Theorem lexes_dumps4 : forall j n, has_float j = false -> lexes (dumps4 n j) (toks j).
Proof.
  induction j as [| b | z | r | s | l IH | l IH] using json_ind2; intros n Hf.
  - apply lexes_atom; [discriminate|reflexivity].
  - destruct b; (apply lexes_atom; [discriminate|reflexivity]).
  - cbn [dumps4 render toks]. destruct (render_z_atomic z). apply lexes_atom; assumption.
  - discriminate.
  - apply lexes_str.
  - cbn [has_float] in Hf. apply existsb_false_Forall in Hf. destruct l as [|x t].
    + apply (lexes_empty 91 93); reflexivity.
    + rewrite dumps4_arr. cbn [toks]. apply lexes_bracket; try reflexivity.
      * repeat constructor.
      * constructor; [reflexivity|apply ind_ws].
      * apply (lexes_join [10]); [repeat constructor| |discriminate].
        apply (Forall2_map_lexes (fun v => ind (S n) ++ dumps4 (S n) v) toks).
        rewrite Forall_forall in *. intros v Hv. apply lexes_ws_prefix; [apply ind_ws|]. apply IH; [exact Hv|apply Hf; exact Hv].
  - cbn [has_float] in Hf. apply existsb_false_Forall in Hf. destruct l as [|x t].
    + apply (lexes_empty 123 125); reflexivity.
    + rewrite dumps4_obj. cbn [toks]. apply lexes_bracket; try reflexivity.
      * repeat constructor.
      * constructor; [reflexivity|apply ind_ws].
      * apply (lexes_join [10]); [repeat constructor| |discriminate].
        apply (Forall2_map_lexes (fun kv => ind (S n) ++ render_str (fst kv) ++ 58 :: [32] ++ dumps4 (S n) (snd kv))
                                 (fun kv => TStr (esc (fst kv)) :: TP 58 :: toks (snd kv))).
        rewrite Forall_forall in *. intros kv Hkv. apply lexes_ws_prefix; [apply ind_ws|].
        apply (lexes_cat (render_str (fst kv)) [TStr (esc (fst kv))] 58 [32] (dumps4 (S n) (snd kv)) (toks (snd kv))); try reflexivity.
        -- repeat constructor.
        -- apply lexes_str.
        -- apply IH; [exact Hkv|apply (Hf kv); exact Hkv].
Qed.

(* from "followed by a delimiter" to the whole text *)
Lemma tokens_ws_end s : tokens (s ++ [32]) = tokens s.
Proof.
  unfold tokens. rewrite run_app. destruct (run (Out, []) s) as [[m ts]|]; [|reflexivity].
  destruct m as [|acc|acc|acc]; cbn [run step]; reflexivity.
Qed.

Theorem lexes_tokens t T : lexes t T -> tokens t = Some T.
Proof.
  intros H. rewrite <- tokens_ws_end. unfold tokens. rewrite (H [] 32 [] eq_refl).
  change (dstep 32 (rev T ++ [])) with (Out, rev T ++ []). cbn [run].
  rewrite frev_rev, app_nil_r, rev_involutive. reflexivity.
Qed.

(* ---- Part D: the parser on the token sequence of a value ---- *)
Fixpoint wfj (j : json) : Prop :=
  match j with
  | JNull | JBool _ => True
  | JNum z => digits_ok z
  | JFloat _ => False
  | JStr s => wf_str s
  | JArr l => (fix all (l : list json) : Prop := match l with [] => True | x :: t => wfj x /\ all t end) l
  | JObj l => (fix all (l : list (text * json)) : Prop :=
                 match l with [] => True | kv :: t => (wf_str (fst kv) /\ wfj (snd kv)) /\ all t end) l
              /\ NoDup (map fst l)
  end.

Lemma wfj_arr l : wfj (JArr l) <-> Forall wfj l.
Proof.
  cbn [wfj]. induction l as [|x t IH]; [split; constructor|]. split.
  - intros [Hx Ht]. constructor; [exact Hx|apply IH; exact Ht].
  - intros H. inversion H; subst. split; [assumption|apply IH; assumption].
Qed.
Lemma wfj_obj l : wfj (JObj l) <-> Forall (fun kv => wf_str (fst kv) /\ wfj (snd kv)) l /\ NoDup (map fst l).
Proof.
  cbn [wfj]. apply and_iff_compat_r. induction l as [|x t IH]; [split; constructor|]. split.
  - intros [Hx Ht]. constructor; [exact Hx|apply IH; exact Ht].
  - intros H. inversion H; subst. split; [assumption|apply IH; assumption].
Qed.

Lemma wfj_no_float : forall j, wfj j -> has_float j = false.
Proof.
  induction j as [| b | z | r | s | l IH | l IH] using json_ind2; intros H; try reflexivity; [contradiction| |].
  - apply wfj_arr in H. cbn [has_float]. induction l as [|x t IHt]; [reflexivity|]. inversion IH; inversion H; subst.
    cbn [existsb]. rewrite H2 by assumption. apply IHt; assumption.
  - apply wfj_obj in H. destruct H as [H _]. cbn [has_float]. induction l as [|x t IHt]; [reflexivity|]. inversion IH; inversion H; subst.
    cbn [existsb]. rewrite H2 by tauto. apply IHt; assumption.
Qed.

Definition is_close (t : tok) : bool := match t with TP c => (c =? 93) || (c =? 125) | _ => false end.

Lemma toks_head j : exists tk r, toks j = tk :: r /\ is_close tk = false.
Proof. destruct j as [| [|] | z | r | s | l | l]; cbn [toks]; eexists; eexists; split; reflexivity. Qed.

Lemma open_arr f r : (forall tk r2, r = tk :: r2 -> is_close tk = false) ->
  pval (S f) KVal (TP 91 :: r) = pval f (KArr []) r.
Proof.
  intros H. cbn [pval]. change (91 =? 91) with true. cbv iota. destruct r as [|[raw|c2|a] r2]; try reflexivity.
  specialize (H (TP c2) r2 eq_refl). cbn [is_close] in H. apply orb_false_iff in H. destruct H as [H _]. rewrite H. reflexivity.
Qed.
Lemma open_obj f r : (forall tk r2, r = tk :: r2 -> is_close tk = false) ->
  pval (S f) KVal (TP 123 :: r) = pval f (KObj []) r.
Proof.
  intros H. cbn [pval]. change (123 =? 91) with false. change (123 =? 123) with true. cbv iota. destruct r as [|[raw|c2|a] r2]; try reflexivity.
  specialize (H (TP c2) r2 eq_refl). cbn [is_close] in H. apply orb_false_iff in H. destruct H as [_ H]. rewrite H. reflexivity.
Qed.

Definition parses (j : json) : Prop :=
  forall fuel rest, (length (toks j) <= fuel)%nat -> pval fuel KVal (toks j ++ rest) = Some (j, rest).

Lemma sep_tokens_length_cons a b l : length (sep_tokens (a :: b :: l)) = (length a + 1 + length (sep_tokens (b :: l)))%nat.
Proof. rewrite sep_tokens_cons2, app_length. cbn [length]. lia. Qed.

Lemma arr_loop : forall l acc f rest, l <> [] -> Forall parses l ->
  (length (sep_tokens (map toks l)) + 1 <= f)%nat ->
  pval f (KArr acc) (sep_tokens (map toks l) ++ TP 93 :: rest) = Some (JArr (rev acc ++ l), rest).
Proof.
  induction l as [|x t IH]; intros acc f rest Hn Hp Hf; [congruence|]. inversion Hp as [|? ? Hx Ht]; subst.
  destruct t as [|y t].
  - cbn [map sep_tokens] in *. destruct f as [|f]; [lia|]. cbn [pval]. rewrite (Hx f (TP 93 :: rest)) by lia.
    change (93 =? 44) with false. change (93 =? 93) with true. cbv iota. cbn [rev]. reflexivity.
  - cbn [map] in *. rewrite sep_tokens_length_cons in Hf. rewrite sep_tokens_cons2, <- app_assoc. cbn [app].
    destruct f as [|f]; [lia|]. cbn [pval]. rewrite (Hx f (TP 44 :: sep_tokens (toks y :: map toks t) ++ TP 93 :: rest)) by lia.
    change (44 =? 44) with true. cbv iota.
    rewrite (IH (x :: acc) f rest ltac:(discriminate) Ht) by (cbn [map]; lia). cbn [rev]. rewrite <- app_assoc. reflexivity.
Qed.

Definition mtoks (kv : text * json) : list tok := TStr (esc (fst kv)) :: TP 58 :: toks (snd kv).

Lemma obj_loop : forall l acc f rest, l <> [] -> Forall (fun kv => wf_str (fst kv) /\ parses (snd kv)) l ->
  (length (sep_tokens (map mtoks l)) + 1 <= f)%nat ->
  pval f (KObj acc) (sep_tokens (map mtoks l) ++ TP 125 :: rest) = Some (JObj (build_obj (rev acc ++ l)), rest).
Proof.
  induction l as [|x t IH]; intros acc f rest Hn Hp Hf; [congruence|]. inversion Hp as [|? ? [Hk Hx] Ht]; subst.
  destruct x as [k v]. cbn [fst snd] in *. destruct t as [|y t].
  - cbn [map sep_tokens mtoks fst snd length] in *. destruct f as [|f]; [lia|]. cbn [app pval].
    unfold mtoks. cbn [fst snd app]. change (58 =? 58) with true. cbv iota. rewrite (str_of_esc k Hk). rewrite (Hx f (TP 125 :: rest)) by lia.
    change (125 =? 44) with false. change (125 =? 125) with true. cbv iota. cbn [rev]. reflexivity.
  - cbn [map] in *. rewrite sep_tokens_length_cons in Hf. rewrite sep_tokens_cons2, <- app_assoc. cbn [app].
    unfold mtoks at 1. unfold mtoks at 1 in Hf. cbn [fst snd length app] in *.
    destruct f as [|f]; [lia|]. cbn [pval]. change (58 =? 58) with true. cbv iota. rewrite (str_of_esc k Hk).
    rewrite <- ?app_assoc. cbn [app].
    rewrite (Hx f (TP 44 :: sep_tokens (mtoks y :: map mtoks t) ++ TP 125 :: rest)) by lia.
    change (44 =? 44) with true. cbv iota.
    rewrite (IH ((k, v) :: acc) f rest ltac:(discriminate) Ht) by (cbn [map]; lia). cbn [rev]. rewrite <- app_assoc. reflexivity.
Qed.

Lemma build_obj_nodup : forall l acc, NoDup (map fst (acc ++ l)) ->
  fold_left (fun a kv => obj_set a (fst kv) (snd kv)) l acc = acc ++ l.
Proof.
  induction l as [|[k v] t IH]; intros acc H; [rewrite app_nil_r; reflexivity|]. cbn [fold_left fst snd].
  assert (Hk: ~ In k (map fst acc)).
  { rewrite map_app in H. cbn [map fst] in H. apply NoDup_remove_2 in H. intros Hin. apply H. apply in_or_app. left. exact Hin. }
  rewrite (obj_set_fresh acc k v Hk). rewrite IH; rewrite <- app_assoc; [reflexivity|exact H].
Qed.

Theorem parses_toks : forall j, wfj j -> parses j.
Proof.
  induction j as [| b | z | r | s | l IH | l IH] using json_ind2; intros Hw fuel rest Hf.
  - destruct fuel; [cbn in Hf; lia|]. reflexivity.
  - destruct fuel; [cbn in Hf; destruct b; cbn in Hf; lia|]. destruct b; reflexivity.
  - destruct fuel; [cbn in Hf; lia|]. cbn [toks app pval]. rewrite (atom_render_z z Hw). reflexivity.
  - contradiction.
  - destruct fuel; [cbn in Hf; lia|]. cbn [toks app pval]. rewrite (str_of_esc s Hw). reflexivity.
  - apply wfj_arr in Hw. destruct l as [|x t].
    + destruct fuel; [cbn in Hf; lia|]. reflexivity.
    + cbn [toks] in *. cbn [length] in Hf. rewrite app_length in Hf. cbn [length] in Hf.
      destruct fuel as [|f]; [lia|]. cbn [app]. rewrite <- app_assoc. cbn [app]. rewrite open_arr.
      * rewrite (arr_loop (x :: t) [] f rest ltac:(discriminate)); [reflexivity| |lia].
        rewrite Forall_forall in *. intros v Hv. apply IH; [exact Hv|apply Hw; exact Hv].
      * intros tk r2 E. cbn [map] in E. destruct (toks_head x) as (tk0 & r0 & E0 & Hc).
        destruct t; cbn [sep_tokens] in E; rewrite E0 in E; cbn [app] in E; injection E as <- _; exact Hc.
  - apply wfj_obj in Hw. destruct Hw as [Hw Hnd]. destruct l as [|x t].
    + destruct fuel; [cbn in Hf; lia|]. reflexivity.
    + cbn [toks] in *. fold mtoks in *. cbn [length] in Hf. rewrite app_length in Hf. cbn [length] in Hf.
      destruct fuel as [|f]; [lia|]. cbn [app]. rewrite <- app_assoc. cbn [app]. rewrite open_obj.
      * rewrite (obj_loop (x :: t) [] f rest ltac:(discriminate)); [|
          rewrite Forall_forall in *; intros kv Hkv; split; [apply (Hw kv Hkv)|apply IH; [exact Hkv|apply (Hw kv Hkv)]]|lia].
        cbn [rev app]. unfold build_obj, obj_update. rewrite (build_obj_nodup (x :: t) []) by exact Hnd. reflexivity.
      * intros tk r2 E. cbn [map] in E. destruct t; cbn [sep_tokens mtoks] in E; cbn [app] in E; injection E as <- _; reflexivity.
Qed.

(* ---- nesting depth ---- *)
Definition md_ok (j : json) : Prop := forall cur best rest, (cur <= best)%nat ->
  max_depth cur best (toks j ++ rest) = max_depth cur (Nat.max best (cur + jdepth j)) rest.

Lemma md_step_other c cur best r : ((c =? 91) || (c =? 123)) = false -> ((c =? 93) || (c =? 125)) = false ->
  max_depth cur best (TP c :: r) = max_depth cur best r.
Proof. intros H1 H2. cbn [max_depth]. rewrite H1, H2. reflexivity. Qed.

Lemma md_step_str a cur best r : max_depth cur best (TStr a :: r) = max_depth cur best r.
Proof. reflexivity. Qed.

Lemma md_arr_elems : forall l cur best rest, (cur <= best)%nat -> Forall md_ok l ->
  max_depth cur best (sep_tokens (map toks l) ++ rest) =
  max_depth cur (Nat.max best (cur + fold_right (fun x m => Nat.max (jdepth x) m) O l)) rest.
Proof.
  induction l as [|x t IH]; intros cur best rest Hc Hl.
  - cbn [map sep_tokens app fold_right]. f_equal. lia.
  - inversion Hl as [|? ? Hx Ht]; subst. destruct t as [|y t].
    + cbn [map sep_tokens fold_right]. rewrite (Hx cur best rest Hc). f_equal. rewrite Nat.max_0_r. reflexivity.
    + cbn [map]. rewrite sep_tokens_cons2, <- app_assoc. cbn [app]. rewrite (Hx cur best _ Hc).
      rewrite md_step_other by reflexivity. change (toks y :: map toks t) with (map toks (y :: t)).
      rewrite (IH cur (Nat.max best (cur + jdepth x)) rest ltac:(lia) Ht). f_equal. cbn [fold_right]. lia.
Qed.

Lemma md_obj_elems : forall l cur best rest, (cur <= best)%nat -> Forall (fun kv => md_ok (snd kv)) l ->
  max_depth cur best (sep_tokens (map mtoks l) ++ rest) =
  max_depth cur (Nat.max best (cur + fold_right (fun kv m => Nat.max (jdepth (snd kv)) m) O l)) rest.
Proof.
  induction l as [|x t IH]; intros cur best rest Hc Hl.
  - cbn [map sep_tokens app fold_right]. f_equal. lia.
  - inversion Hl as [|? ? Hx Ht]; subst. destruct t as [|y t].
    + cbn [map sep_tokens fold_right]. unfold mtoks. cbn [app]. rewrite md_step_str, md_step_other by reflexivity.
      rewrite (Hx cur best rest Hc). f_equal. rewrite Nat.max_0_r. reflexivity.
    + cbn [map]. rewrite sep_tokens_cons2, <- app_assoc. unfold mtoks at 1. cbn [app].
      rewrite md_step_str, md_step_other by reflexivity. rewrite <- ?app_assoc. rewrite (Hx cur best _ Hc). cbn [app].
      rewrite md_step_other by reflexivity. change (mtoks y :: map mtoks t) with (map mtoks (y :: t)).
      rewrite (IH cur (Nat.max best (cur + jdepth (snd x))) rest ltac:(lia) Ht). f_equal. cbn [fold_right]. lia.
Qed.

Theorem md_toks : forall j, md_ok j.
Proof.
  induction j as [| b | z | r | s | l IH | l IH] using json_ind2; intros cur best rest Hc;
    try (cbn [toks app max_depth jdepth]; f_equal; lia).
  - destruct b; cbn [toks app max_depth jdepth]; f_equal; lia.
  - cbn [toks jdepth]. cbn [app max_depth]. change ((91 =? 91) || (91 =? 123)) with true. cbv iota.
    rewrite <- app_assoc. rewrite (md_arr_elems l (S cur) (Nat.max best (S cur)) _ ltac:(lia) IH). cbn [app max_depth].
    change ((93 =? 91) || (93 =? 123)) with false. change ((93 =? 93) || (93 =? 125)) with true. cbv iota. cbn [Nat.pred]. f_equal. lia.
  - cbn [toks jdepth]. fold mtoks. cbn [app max_depth]. change ((123 =? 91) || (123 =? 123)) with true. cbv iota.
    rewrite <- app_assoc. rewrite (md_obj_elems l (S cur) (Nat.max best (S cur)) _ ltac:(lia) IH). cbn [app max_depth].
    change ((125 =? 91) || (125 =? 123)) with false. change ((125 =? 93) || (125 =? 125)) with true. cbv iota. cbn [Nat.pred]. f_equal. lia.
Qed.

Corollary max_depth_toks j : max_depth 0 0 (toks j) = jdepth j.
Proof. rewrite <- (app_nil_r (toks j)), (md_toks j 0%nat 0%nat [] ltac:(lia)). reflexivity. Qed.

(* ---- round trips ---- *)
Definition wf_json (j : json) : Prop := wfj j /\ (jdepth j <= depth_limit)%nat.

Theorem loads_tokens_toks j : wf_json j -> loads_tokens (toks j) = LOk j.
Proof.
  intros [Hw Hd]. unfold loads_tokens. rewrite max_depth_toks.
  destruct (Nat.ltb_spec depth_limit (jdepth j)); [lia|].
  pose proof (parses_toks j Hw (2 * length (toks j) + 2)%nat [] ltac:(lia)) as P. rewrite app_nil_r in P. rewrite P.
  rewrite (wfj_no_float j Hw). reflexivity.
Qed.

Theorem loads_render j : wf_json j -> loads (render j) = LOk j.
Proof.
  intros H. unfold loads. rewrite (lexes_tokens _ _ (lexes_render j (wfj_no_float j (proj1 H)))). apply loads_tokens_toks. exact H.
Qed.

Theorem loads_dumps4 j : wf_json j -> loads (dumps4 0 j) = LOk j.
Proof.
  intros H. unfold loads. rewrite (lexes_tokens _ _ (lexes_dumps4 j 0%nat (wfj_no_float j (proj1 H)))). apply loads_tokens_toks. exact H.
Qed.

(* what peltool prints for one PEL: prettyPrint(json.dumps(out, indent=4)) *)
Theorem loads_printed w j : wf_json j -> loads (pretty_print w (dumps4 0 j)) = LOk j.
Proof. intros H. unfold loads. rewrite pretty_print_tokens. apply (loads_dumps4 j H). Qed.

(* loads only looks at the token sequence *)
Theorem loads_same_tokens s1 s2 : tokens s1 = tokens s2 -> loads s1 = loads s2.
Proof. intros H. unfold loads. rewrite H. reflexivity. Qed.

(* ---- what a printed value looks like to json.loads, whatever the blanks ---- *)
Theorem loads_of_tokens s j : tokens s = Some (toks j) -> wf_json j -> loads s = LOk j.
Proof. intros H Hw. unfold loads. rewrite H. apply loads_tokens_toks. exact Hw. Qed.

(* ---- documents: a printed object or array is a complete text (the lexer is back outside any token at its end) ---- *)
Lemma step_punct_mode s c m ts : is_punct c = true -> step s c = Some (m, ts) -> m = Out \/ exists acc, m = InStr acc.
Proof.
  intros Hp H. destruct s as [[|acc|acc|acc] ts0]; cbn [step] in H.
  - destruct (is_ws c); [injection H as <- _; left; reflexivity|]. destruct (c =? q); [injection H as <- _; right; eexists; reflexivity|].
    rewrite Hp in H. injection H as <- _. left. reflexivity.
  - destruct (c =? q); [injection H as <- _; left; reflexivity|]. destruct (N.eqb_spec c bs) as [->|_]; [discriminate Hp|].
    destruct (c <? 32); [discriminate|]. injection H as <- _. right. eexists. reflexivity.
  - destruct (c <? 32); [discriminate|]. injection H as <- _. right. eexists. reflexivity.
  - destruct (is_ws c); [injection H as <- _; left; reflexivity|]. destruct (c =? q); [injection H as <- _; right; eexists; reflexivity|].
    rewrite Hp in H. injection H as <- _. left. reflexivity.
Qed.

Lemma lexes_punct_end d c T : is_punct c = true -> lexes (d ++ [c]) T ->
  forall ts, run (Out, ts) (d ++ [c]) = Some (Out, rev T ++ ts).
Proof.
  intros Hp H ts. pose proof (H ts 32 [] eq_refl) as E. change (dstep 32 (rev T ++ ts)) with (Out, rev T ++ ts) in E. cbn [run] in E.
  rewrite run_app in E. destruct (run (Out, ts) (d ++ [c])) as [[m ts1]|] eqn:R; [|discriminate].
  assert (Hm: m = Out \/ exists acc, m = InStr acc).
  { rewrite run_app in R. destruct (run (Out, ts) d) as [s0|]; [|discriminate]. cbn [run] in R.
    destruct (step s0 c) as [[m' ts']|] eqn:S; [|discriminate]. injection R as <- <-. eapply step_punct_mode; eassumption. }
  destruct Hm as [->|[acc ->]].
  - cbn [run step] in E. change (is_ws 32) with true in E. cbv iota in E. injection E as <-. reflexivity.
  - cbn [run step] in E. unfold q, bs in E. change (32 =? 34) with false in E. change (32 =? 92) with false in E.
    change (32 <? 32) with false in E. cbv iota in E. discriminate.
Qed.

Lemma dumps4_obj_end n l : exists d, dumps4 n (JObj l) = d ++ [125].
Proof.
  destruct l as [|x t]; [exists [123]; reflexivity|]. rewrite dumps4_obj. eexists. rewrite !app_comm_cons, !app_assoc. reflexivity.
Qed.

Theorem printed_object_complete w l : has_float (JObj l) = false ->
  complete (pretty_print w (dumps4 0 (JObj l))) (toks (JObj l)).
Proof.
  intros Hf. unfold complete. rewrite pretty_print_run. destruct (dumps4_obj_end 0 l) as [d E]. rewrite E.
  rewrite (lexes_punct_end d 125 (toks (JObj l)) eq_refl); [rewrite app_nil_r; reflexivity|]. rewrite <- E. apply lexes_dumps4. exact Hf.
Qed.

(* what --all-pels prints parses back to the list of the documents *)
Theorem all_output_loads w (ls : list (list (text * json))) : wf_json (JArr (map JObj ls)) ->
  loads (all_output (map (fun l => pretty_print w (dumps4 0 (JObj l))) ls)) = LOk (JArr (map JObj ls)).
Proof.
  intros Hw. apply loads_of_tokens; [|exact Hw].
  rewrite (all_output_tokens _ (map (fun l => toks (JObj l)) ls)).
  - cbn [toks app]. rewrite map_map. reflexivity.
  - destruct Hw as [Hw _]. apply wfj_arr in Hw. induction ls as [|l t IH]; cbn [map]; constructor.
    + apply printed_object_complete. inversion Hw; subst. apply wfj_no_float. assumption.
    + apply IH. inversion Hw; assumption.
Qed.

(* ---- the decidable well-formedness check is sound ---- *)
Lemma text_eqb_true_iff a b : text_eqb a b = true <-> a = b.
Proof.
  split.
  - revert b; induction a as [|x a IH]; destruct b as [|y b]; cbn [text_eqb]; intros H; try discriminate; [reflexivity|].
    apply andb_prop in H. destruct H as [H1 H2]. apply N.eqb_eq in H1. f_equal; auto.
  - intros <-. induction a as [|x a IH]; [reflexivity|]. cbn [text_eqb]. rewrite N.eqb_refl, IH. reflexivity.
Qed.

Lemma nodupb_sound l : nodupb l = true -> NoDup l.
Proof.
  induction l as [|x t IH]; intros H; [constructor|]. cbn [nodupb] in H. apply andb_prop in H. destruct H as [H1 H2].
  constructor; [|apply IH; exact H2]. intros Hin. apply negb_true_iff in H1.
  assert (existsb (text_eqb x) t = true) as E; [|congruence].
  apply existsb_exists. exists x. split; [exact Hin|apply text_eqb_true_iff; reflexivity].
Qed.

Lemma no_pairb_sound s : no_pairb s = true -> no_pair s.
Proof.
  induction s as [|c t IH]; intros H; [exact I|]. cbn [no_pairb] in H. apply andb_prop in H. destruct H as [H1 H2].
  cbn [no_pair]. split; [|apply IH; exact H2]. destruct t as [|d t']; [exact I|]. intros Hh. rewrite Hh in H1. cbn [andb negb] in H1.
  apply negb_true_iff in H1. exact H1.
Qed.

Lemma wf_strb_sound s : wf_strb s = true -> wf_str s.
Proof.
  unfold wf_strb, wf_str. intros H. apply andb_prop in H. destruct H as [H1 H2]. split; [|apply no_pairb_sound; exact H2].
  rewrite forallb_forall in H1. rewrite Forall_forall. intros c Hc. apply N.ltb_lt. apply H1. exact Hc.
Qed.

Theorem wfjb_sound : forall j, wfjb j = true -> wfj j.
Proof.
  induction j as [| b | z | r | s | l IH | l IH] using json_ind2; intros H; cbn [wfjb] in H.
  - exact I.
  - exact I.
  - unfold digits_okb in H. apply Nat.leb_le in H. exact H.
  - discriminate.
  - apply wf_strb_sound. exact H.
  - apply wfj_arr. rewrite forallb_forall in H. rewrite Forall_forall in *. intros x Hx. apply IH; [exact Hx|apply H; exact Hx].
  - apply andb_prop in H. destruct H as [H1 H2]. apply wfj_obj. split; [|apply nodupb_sound; exact H2].
    rewrite forallb_forall in H1. rewrite Forall_forall in *. intros kv Hkv. specialize (H1 kv Hkv). apply andb_prop in H1. destruct H1 as [Hk Hv].
    split; [apply wf_strb_sound; exact Hk|apply IH; [exact Hkv|exact Hv]].
Qed.

Theorem wf_jsonb_sound j : wf_jsonb j = true -> wf_json j.
Proof.
  unfold wf_jsonb, wf_json. intros H. apply andb_prop in H. destruct H as [H1 H2]. split; [apply wfjb_sound; exact H1|apply Nat.leb_le; exact H2].
Qed.

(* ==================================================================================================== *)
(* Any spelling.  [spells j T]: the token sequence T writes the value j in JSON - any escapes in string literals, any
   accepted spelling of an integer (-0), arrays and objects with their members in order.  json.loads returns j for EVERY such
   sequence (and hence for every text that lexes to one: any placement of blanks).  toks j is one spelling. *)
Fixpoint spells (j : json) (T : list tok) : Prop :=
  match j with
  | JNull => T = [TAtom (L "null")]
  | JBool b => T = [TAtom (if b then L "true" else L "false")]
  | JNum z => exists a, T = [TAtom a] /\ atom a = AVal (JNum z)
  | JFloat _ => False
  | JStr s => exists r, T = [TStr r] /\ str_of r = Some s
  | JArr l => exists Ts, T = TP 91 :: sep_tokens Ts ++ [TP 93] /\
      (fix all (l : list json) (Ts : list (list tok)) : Prop :=
         match l, Ts with
         | [], [] => True
         | x :: l', t :: Ts' => spells x t /\ all l' Ts'
         | _, _ => False
         end) l Ts
  | JObj l => exists Ms, T = TP 123 :: sep_tokens Ms ++ [TP 125] /\
      (fix all (l : list (text * json)) (Ms : list (list tok)) : Prop :=
         match l, Ms with
         | [], [] => True
         | kv :: l', m :: Ms' => (exists r t, m = TStr r :: TP 58 :: t /\ str_of r = Some (fst kv) /\ spells (snd kv) t) /\ all l' Ms'
         | _, _ => False
         end) l Ms
  end.

Definition member_spells (kv : text * json) (m : list tok) : Prop :=
  exists r t, m = TStr r :: TP 58 :: t /\ str_of r = Some (fst kv) /\ spells (snd kv) t.

Lemma spells_arr l T : spells (JArr l) T <-> exists Ts, T = TP 91 :: sep_tokens Ts ++ [TP 93] /\ Forall2 spells l Ts.
Proof.
  cbn [spells]. split; intros [Ts [E H]]; exists Ts; (split; [exact E|]); clear E.
  - revert Ts H. induction l as [|x l IH]; intros [|t Ts] H; try contradiction; constructor; [apply H|apply IH; apply H].
  - induction H; [exact I|]. split; assumption.
Qed.
Lemma spells_obj l T : spells (JObj l) T <-> exists Ms, T = TP 123 :: sep_tokens Ms ++ [TP 125] /\ Forall2 member_spells l Ms.
Proof.
  cbn [spells]. split; intros [Ms [E H]]; exists Ms; (split; [exact E|]); clear E.
  - revert Ms H. induction l as [|x l IH]; intros [|t Ms] H; try contradiction; constructor; [apply H|apply IH; apply H].
  - induction H; [exact I|]. split; assumption.
Qed.

(* distinct keys in every object (what a Python dict is) *)
Fixpoint keys_ok (j : json) : Prop :=
  match j with
  | JArr l => (fix all (l : list json) : Prop := match l with [] => True | x :: t => keys_ok x /\ all t end) l
  | JObj l => (fix all (l : list (text * json)) : Prop := match l with [] => True | kv :: t => keys_ok (snd kv) /\ all t end) l
              /\ NoDup (map fst l)
  | _ => True
  end.
Lemma keys_ok_arr l : keys_ok (JArr l) <-> Forall keys_ok l.
Proof.
  cbn [keys_ok]. induction l as [|x t IH]; [split; constructor|]. split.
  - intros [Hx Ht]. constructor; [exact Hx|apply IH; exact Ht].
  - intros H. inversion H; subst. split; [assumption|apply IH; assumption].
Qed.
Lemma keys_ok_obj l : keys_ok (JObj l) <-> Forall (fun kv => keys_ok (snd kv)) l /\ NoDup (map fst l).
Proof.
  cbn [keys_ok]. apply and_iff_compat_r. induction l as [|x t IH]; [split; constructor|]. split.
  - intros [Hx Ht]. constructor; [exact Hx|apply IH; exact Ht].
  - intros H. inversion H; subst. split; [assumption|apply IH; assumption].
Qed.

Lemma spells_head j T : spells j T -> exists tk r, T = tk :: r /\ is_close tk = false.
Proof.
  destruct j as [| b | z | r | s | l | l]; cbn [spells]; intros H.
  - subst. eexists; eexists; split; reflexivity.
  - subst. eexists; eexists; split; reflexivity.
  - destruct H as (a & -> & _). eexists; eexists; split; reflexivity.
  - contradiction.
  - destruct H as (r & -> & _). eexists; eexists; split; reflexivity.
  - destruct H as (Ts & -> & _). eexists; eexists; split; reflexivity.
  - destruct H as (Ms & -> & _). eexists; eexists; split; reflexivity.
Qed.

Definition parses_as (j : json) (T : list tok) : Prop :=
  forall fuel rest, (length T <= fuel)%nat -> pval fuel KVal (T ++ rest) = Some (j, rest).

Lemma arr_loop_s : forall l Ts acc f rest, Forall2 parses_as l Ts -> l <> [] ->
  (length (sep_tokens Ts) + 1 <= f)%nat ->
  pval f (KArr acc) (sep_tokens Ts ++ TP 93 :: rest) = Some (JArr (rev acc ++ l), rest).
Proof.
  induction l as [|x t IH]; intros Ts acc f rest H Hn Hf; [congruence|]. inversion H as [|? T ? Ts' Hx Ht]; subst.
  destruct t as [|y t].
  - inversion Ht; subst. cbn [sep_tokens] in *. destruct f as [|f]; [lia|]. cbn [pval]. rewrite (Hx f (TP 93 :: rest)) by lia.
    change (93 =? 44) with false. change (93 =? 93) with true. cbv iota. cbn [rev]. reflexivity.
  - inversion Ht as [|? T2 ? Ts2 Hy Ht2]; subst. rewrite sep_tokens_length_cons in Hf. rewrite sep_tokens_cons2, <- app_assoc. cbn [app].
    destruct f as [|f]; [lia|]. cbn [pval]. rewrite (Hx f (TP 44 :: sep_tokens (T2 :: Ts2) ++ TP 93 :: rest)) by lia.
    change (44 =? 44) with true. cbv iota.
    rewrite (IH (T2 :: Ts2) (x :: acc) f rest Ht ltac:(discriminate)) by lia. cbn [rev]. rewrite <- app_assoc. reflexivity.
Qed.

Definition member_parses (kv : text * json) (m : list tok) : Prop :=
  exists r t, m = TStr r :: TP 58 :: t /\ str_of r = Some (fst kv) /\ parses_as (snd kv) t.

Lemma obj_loop_s : forall l Ms acc f rest, Forall2 member_parses l Ms -> l <> [] ->
  (length (sep_tokens Ms) + 1 <= f)%nat ->
  pval f (KObj acc) (sep_tokens Ms ++ TP 125 :: rest) = Some (JObj (build_obj (rev acc ++ l)), rest).
Proof.
  induction l as [|x t IH]; intros Ms acc f rest H Hn Hf; [congruence|]. inversion H as [|? M ? Ms' Hx Ht]; subst.
  destruct x as [k v]. destruct Hx as (r & tv & -> & Hk & Hv). cbn [fst snd] in *. destruct t as [|y t].
  - inversion Ht; subst. cbn [sep_tokens length] in *. destruct f as [|f]; [lia|]. cbn [app pval].
    change (58 =? 58) with true. cbv iota. rewrite Hk. rewrite (Hv f (TP 125 :: rest)) by lia.
    change (125 =? 44) with false. change (125 =? 125) with true. cbv iota. cbn [rev]. reflexivity.
  - inversion Ht as [|? M2 ? Ms2 Hy Ht2]; subst. rewrite sep_tokens_length_cons in Hf. rewrite sep_tokens_cons2, <- app_assoc.
    cbn [app length] in *. destruct f as [|f]; [lia|]. cbn [pval]. change (58 =? 58) with true. cbv iota. rewrite Hk.
    rewrite <- ?app_assoc. cbn [app].
    rewrite (Hv f (TP 44 :: sep_tokens (M2 :: Ms2) ++ TP 125 :: rest)) by lia.
    change (44 =? 44) with true. cbv iota.
    rewrite (IH (M2 :: Ms2) ((k, v) :: acc) f rest Ht ltac:(discriminate)) by lia. cbn [rev]. rewrite <- app_assoc. reflexivity.
Qed.

Lemma sep_head_not_close Ts tail tk r2 : (forall T, In T Ts -> exists tk0 r0, T = tk0 :: r0 /\ is_close tk0 = false) -> Ts <> [] ->
  sep_tokens Ts ++ tail = tk :: r2 -> is_close tk = false.
Proof.
  intros H Hn E. destruct Ts as [|T Ts']; [congruence|]. destruct (H T (or_introl eq_refl)) as (tk0 & r0 & -> & Hc).
  destruct Ts'; cbn [sep_tokens app] in E; injection E as <- _; exact Hc.
Qed.

Theorem parses_spelling : forall j T, spells j T -> keys_ok j -> parses_as j T.
Proof.
  induction j as [| b | z | r | s | l IH | l IH] using json_ind2; intros T Hs Hk fuel rest Hf.
  - cbn [spells] in Hs. subst. destruct fuel; [cbn in Hf; lia|]. reflexivity.
  - cbn [spells] in Hs. subst. destruct fuel; [cbn in Hf; lia|]. destruct b; reflexivity.
  - destruct Hs as (a & -> & Ha). destruct fuel; [cbn in Hf; lia|]. cbn [app pval]. rewrite Ha. reflexivity.
  - contradiction.
  - destruct Hs as (r & -> & Hr). destruct fuel; [cbn in Hf; lia|]. cbn [app pval]. rewrite Hr. reflexivity.
  - apply spells_arr in Hs. destruct Hs as (Ts & -> & HF). apply keys_ok_arr in Hk. destruct l as [|x t].
    + inversion HF; subst. destruct fuel; [cbn in Hf; lia|]. reflexivity.
    + cbn [length] in Hf. rewrite app_length in Hf. cbn [length] in Hf.
      destruct fuel as [|f]; [lia|]. cbn [app]. rewrite <- app_assoc. cbn [app]. rewrite open_arr.
      * rewrite (arr_loop_s (x :: t) Ts [] f rest); [reflexivity| |discriminate|lia].
        clear Hf. revert IH Hk. induction HF as [|x0 T0 l0 Ts0 H0 HF0 IHF]; intros IH Hk; constructor.
        -- inversion IH as [|? ? Px _]; inversion Hk as [|? ? Kx _]; subst. exact (Px T0 H0 Kx).
        -- apply IHF; [inversion IH; assumption|inversion Hk; assumption].
      * intros tk r2 E. eapply (sep_head_not_close Ts _ tk r2); [|inversion HF; discriminate|exact E].
        intros T HT. clear - HF HT. induction HF as [|x0 T0 l0 Ts0 H0 HF0 IHF]; [contradiction|].
        destruct HT as [<-|HT]; [eapply spells_head; exact H0|apply IHF; exact HT].
  - apply spells_obj in Hs. destruct Hs as (Ms & -> & HF). apply keys_ok_obj in Hk. destruct Hk as [Hk Hnd]. destruct l as [|x t].
    + inversion HF; subst. destruct fuel; [cbn in Hf; lia|]. reflexivity.
    + cbn [length] in Hf. rewrite app_length in Hf. cbn [length] in Hf.
      destruct fuel as [|f]; [lia|]. cbn [app]. rewrite <- app_assoc. cbn [app]. rewrite open_obj.
      * rewrite (obj_loop_s (x :: t) Ms [] f rest); [| |discriminate|lia].
        -- cbn [rev app]. unfold build_obj, obj_update. rewrite (build_obj_nodup (x :: t) []) by exact Hnd. reflexivity.
        -- clear Hf Hnd. revert IH Hk. induction HF as [|x0 M0 l0 Ms0 H0 HF0 IHF]; intros IH Hk; constructor.
           ++ destruct H0 as (r0 & t0 & -> & Hr0 & Hs0). exists r0, t0. split; [reflexivity|]. split; [exact Hr0|].
              inversion IH as [|? ? Px _]; inversion Hk as [|? ? Kx _]; subst. exact (Px t0 Hs0 Kx).
           ++ apply IHF; [inversion IH; assumption|inversion Hk; assumption].
      * intros tk r2 E. eapply (sep_head_not_close Ms _ tk r2); [|inversion HF; discriminate|exact E].
        intros M HM. clear - HF HM. induction HF as [|x0 M0 l0 Ms0 H0 HF0 IHF]; [contradiction|].
        destruct HM as [<-|HM]; [destruct H0 as (r0 & t0 & -> & _); eexists; eexists; split; reflexivity|apply IHF; exact HM].
Qed.

Definition md_as (j : json) (T : list tok) : Prop := forall cur best rest, (cur <= best)%nat ->
  max_depth cur best (T ++ rest) = max_depth cur (Nat.max best (cur + jdepth j)) rest.

Lemma md_step_atom a cur best r : max_depth cur best (TAtom a :: r) = max_depth cur best r.
Proof. reflexivity. Qed.

Lemma md_arr_elems_s : forall l Ts cur best rest, (cur <= best)%nat -> Forall2 md_as l Ts ->
  max_depth cur best (sep_tokens Ts ++ rest) =
  max_depth cur (Nat.max best (cur + fold_right (fun x m => Nat.max (jdepth x) m) O l)) rest.
Proof.
  induction l as [|x t IH]; intros Ts cur best rest Hc H; inversion H as [|? T ? Ts' Hx Ht]; subst.
  - cbn [sep_tokens app fold_right]. f_equal. lia.
  - destruct t as [|y t].
    + inversion Ht; subst. cbn [sep_tokens fold_right]. rewrite (Hx cur best rest Hc). f_equal. rewrite Nat.max_0_r. reflexivity.
    + inversion Ht as [|? T2 ? Ts2 Hy Ht2]; subst. rewrite sep_tokens_cons2, <- app_assoc. cbn [app]. rewrite (Hx cur best _ Hc).
      rewrite md_step_other by reflexivity.
      rewrite (IH (T2 :: Ts2) cur (Nat.max best (cur + jdepth x)) rest ltac:(lia) Ht). f_equal. cbn [fold_right]. lia.
Qed.

Definition member_md (kv : text * json) (m : list tok) : Prop := exists r t, m = TStr r :: TP 58 :: t /\ md_as (snd kv) t.

Lemma md_obj_elems_s : forall l Ms cur best rest, (cur <= best)%nat -> Forall2 member_md l Ms ->
  max_depth cur best (sep_tokens Ms ++ rest) =
  max_depth cur (Nat.max best (cur + fold_right (fun kv m => Nat.max (jdepth (snd kv)) m) O l)) rest.
Proof.
  induction l as [|x t IH]; intros Ms cur best rest Hc H; inversion H as [|? M ? Ms' Hx Ht]; subst.
  - cbn [sep_tokens app fold_right]. f_equal. lia.
  - destruct Hx as (r & tv & -> & Hv). destruct t as [|y t].
    + inversion Ht; subst. cbn [sep_tokens fold_right app]. rewrite md_step_str, md_step_other by reflexivity.
      rewrite (Hv cur best rest Hc). f_equal. rewrite Nat.max_0_r. reflexivity.
    + inversion Ht as [|? M2 ? Ms2 Hy Ht2]; subst. rewrite sep_tokens_cons2, <- app_assoc. cbn [app].
      rewrite md_step_str, md_step_other by reflexivity. rewrite <- ?app_assoc. rewrite (Hv cur best _ Hc). cbn [app].
      rewrite md_step_other by reflexivity.
      rewrite (IH (M2 :: Ms2) cur (Nat.max best (cur + jdepth (snd x))) rest ltac:(lia) Ht). f_equal. cbn [fold_right]. lia.
Qed.

Theorem md_spelling : forall j T, spells j T -> md_as j T.
Proof.
  induction j as [| b | z | r | s | l IH | l IH] using json_ind2; intros T Hs cur best rest Hc.
  - cbn [spells] in Hs. subst. cbn [app jdepth]. rewrite md_step_atom. f_equal. lia.
  - cbn [spells] in Hs. subst. cbn [app jdepth]. rewrite md_step_atom. f_equal. lia.
  - destruct Hs as (a & -> & _). cbn [app jdepth]. rewrite md_step_atom. f_equal. lia.
  - contradiction.
  - destruct Hs as (r & -> & _). cbn [app jdepth]. rewrite md_step_str. f_equal. lia.
  - apply spells_arr in Hs. destruct Hs as (Ts & -> & HF). cbn [jdepth]. cbn [app max_depth].
    change ((91 =? 91) || (91 =? 123)) with true. cbv iota. rewrite <- app_assoc.
    rewrite (md_arr_elems_s l Ts (S cur) (Nat.max best (S cur)) _ ltac:(lia)).
    + cbn [app max_depth]. change ((93 =? 91) || (93 =? 123)) with false. change ((93 =? 93) || (93 =? 125)) with true. cbv iota.
      cbn [Nat.pred]. f_equal. lia.
    + clear - IH HF. induction HF as [|x0 T0 l0 Ts0 H0 HF0 IHF]; constructor.
      * inversion IH as [|? ? Px _]; subst. exact (Px T0 H0).
      * apply IHF. inversion IH; assumption.
  - apply spells_obj in Hs. destruct Hs as (Ms & -> & HF). cbn [jdepth]. cbn [app max_depth].
    change ((123 =? 91) || (123 =? 123)) with true. cbv iota. rewrite <- app_assoc.
    rewrite (md_obj_elems_s l Ms (S cur) (Nat.max best (S cur)) _ ltac:(lia)).
    + cbn [app max_depth]. change ((125 =? 91) || (125 =? 123)) with false. change ((125 =? 93) || (125 =? 125)) with true. cbv iota.
      cbn [Nat.pred]. f_equal. lia.
    + clear - IH HF. induction HF as [|x0 M0 l0 Ms0 H0 HF0 IHF]; constructor.
      * destruct H0 as (r0 & t0 & -> & _ & Hs0). exists r0, t0. split; [reflexivity|].
        inversion IH as [|? ? Px _]; subst. exact (Px t0 Hs0).
      * apply IHF. inversion IH; assumption.
Qed.

Lemma spells_no_float : forall j T, spells j T -> has_float j = false.
Proof.
  induction j as [| b | z | r | s | l IH | l IH] using json_ind2; intros T Hs; try reflexivity; [contradiction| |].
  - apply spells_arr in Hs. destruct Hs as (Ts & _ & HF). cbn [has_float]. clear - IH HF.
    induction HF as [|x0 T0 l0 Ts0 H0 HF0 IHF]; [reflexivity|]. cbn [existsb]. inversion IH as [|? ? Px Pt]; subst.
    rewrite (Px T0 H0). apply IHF. exact Pt.
  - apply spells_obj in Hs. destruct Hs as (Ms & _ & HF). cbn [has_float]. clear - IH HF.
    induction HF as [|x0 M0 l0 Ms0 H0 HF0 IHF]; [reflexivity|]. cbn [existsb]. inversion IH as [|? ? Px Pt]; subst.
    destruct H0 as (r0 & t0 & _ & _ & Hs0). rewrite (Px t0 Hs0). apply IHF. exact Pt.
Qed.

(* json.loads returns j for every text that lexes to a spelling of j *)
Theorem loads_spelling s j T : tokens s = Some T -> spells j T -> keys_ok j -> (jdepth j <= depth_limit)%nat -> loads s = LOk j.
Proof.
  intros Ht Hs Hk Hd. unfold loads. rewrite Ht. unfold loads_tokens.
  pose proof (md_spelling j T Hs 0%nat 0%nat [] ltac:(lia)) as M. rewrite app_nil_r in M. rewrite M. cbn [max_depth Nat.max Nat.add].
  destruct (Nat.ltb_spec depth_limit (jdepth j)); [lia|].
  pose proof (parses_spelling j T Hs Hk (2 * length T + 2)%nat [] ltac:(lia)) as P. rewrite app_nil_r in P. rewrite P.
  rewrite (spells_no_float j T Hs). reflexivity.
Qed.

(* the printers' token sequence is one spelling *)
Theorem spells_toks : forall j, wfj j -> spells j (toks j) /\ keys_ok j.
Proof.
  induction j as [| b | z | r | s | l IH | l IH] using json_ind2; intros Hw.
  - split; [reflexivity|exact I].
  - split; [destruct b; reflexivity|exact I].
  - split; [|exact I]. cbn [spells toks]. exists (render_z z). split; [reflexivity|apply atom_render_z; exact Hw].
  - contradiction.
  - split; [|exact I]. cbn [spells toks]. exists (esc s). split; [reflexivity|apply str_of_esc; exact Hw].
  - apply wfj_arr in Hw. split.
    + apply spells_arr. exists (map toks l). split; [reflexivity|]. clear - IH Hw.
      induction l as [|x t IHl]; cbn [map]; constructor.
      * inversion IH as [|? ? Px _]; inversion Hw as [|? ? Wx _]; subst. apply Px. exact Wx.
      * apply IHl; [inversion IH; assumption|inversion Hw; assumption].
    + apply keys_ok_arr. rewrite Forall_forall in *. intros x Hx. apply IH; [exact Hx|apply Hw; exact Hx].
  - apply wfj_obj in Hw. destruct Hw as [Hw Hnd]. split.
    + apply spells_obj. exists (map (fun kv => TStr (esc (fst kv)) :: TP 58 :: toks (snd kv)) l). split; [reflexivity|]. clear - IH Hw.
      induction l as [|x t IHl]; cbn [map]; constructor.
      * inversion IH as [|? ? Px _]; inversion Hw as [|? ? [Kx Vx] _]; subst. exists (esc (fst x)), (toks (snd x)).
        split; [reflexivity|]. split; [apply str_of_esc; exact Kx|apply Px; exact Vx].
      * apply IHl; [inversion IH; assumption|inversion Hw; assumption].
    + apply keys_ok_obj. split; [|exact Hnd]. rewrite Forall_forall in *. intros kv Hkv. apply IH; [exact Hkv|apply (Hw kv Hkv)].
Qed.
