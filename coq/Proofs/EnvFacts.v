(* The decode depends on the environment only through the answers of its look-ups (no functional extensionality needed). *)
From Coq Require Import List NArith ZArith Bool Arith.
From PV Require Import Base.Bytes Base.Lit Base.Json Base.Utf8 Base.PelTypes Model.Hexdump Model.Parse Model.Render Model.Pel Gen.Tables.
Import ListNotations.
Open Scope N_scope.

(* same component names; same parser modules as far as they are consulted (only when plugins are allowed).
   For SRC parsers a module whose import fails is indistinguishable from a missing one. *)
Definition src_same (a b : import_outcome (text -> list text -> plugin_result)) : Prop :=
  match a, b with
  | IFound f, IFound g => f = g
  | IFound _, _ | _, IFound _ => False
  | _, _ => True
  end.

Definition env_equiv (c : config) (e1 e2 : env) : Prop :=
  registry e1 = registry e2 /\
  (forall a b, comp_name e1 a b = comp_name e2 a b) /\
  (allow_plugins c = true ->
     (forall m, ud_import e1 m = ud_import e2 m) /\ (forall m, src_same (src_import e1 m) (src_import e2 m)) /\
     (forall m, co_import e1 m = co_import e2 m)).

Section Equiv.
  Variables (c : config) (e1 e2 : env).
  Hypothesis H : env_equiv c e1 e2.

  Lemma display_comp_equiv comp cr : display_comp e1 comp cr = display_comp e2 comp cr.
  Proof. unfold display_comp. destruct H as (_ & Hc & _). rewrite Hc. reflexivity. Qed.

  Lemma base_fields_equiv h cr key : base_fields e1 h cr key = base_fields e2 h cr key.
  Proof. unfold base_fields. rewrite display_comp_equiv. reflexivity. Qed.

  Lemma render_ph_equiv p : render_ph e1 p = render_ph e2 p.
  Proof. unfold render_ph. destruct (utf8_decode [ph_creator p]); [|reflexivity]. rewrite base_fields_equiv. reflexivity. Qed.

  Lemma render_uh_equiv cr u : render_uh e1 cr u = render_uh e2 cr u.
  Proof. unfold render_uh. rewrite base_fields_equiv. reflexivity. Qed.

  Lemma render_eh_equiv h cr x : render_eh e1 h cr x = render_eh e2 h cr x.
  Proof. unfold render_eh. rewrite base_fields_equiv. reflexivity. Qed.
  Lemma render_mt_equiv h cr x : render_mt e1 h cr x = render_mt e2 h cr x.
  Proof. unfold render_mt. rewrite base_fields_equiv. reflexivity. Qed.
  Lemma render_lp_equiv h cr x : render_lp e1 h cr x = render_lp e2 h cr x.
  Proof. unfold render_lp. rewrite base_fields_equiv. reflexivity. Qed.

  Lemma ud_value_equiv cr comp sub ver d : ud_value_of e1 c cr comp sub ver d = ud_value_of e2 c cr comp sub ver d.
  Proof.
    unfold ud_value_of. destruct (is_bmc cr && (comp =? 8192)); [reflexivity|].
    destruct (allow_plugins c) eqn:Ep; [|reflexivity]. destruct H as (_ & _ & Hp). destruct (Hp Ep) as (Hu & _ & _).
    unfold custom_value. rewrite Hu. reflexivity.
  Qed.

  Lemma render_ud_equiv h cr d : render_ud e1 c h cr d = render_ud e2 c h cr d.
  Proof. unfold render_ud. rewrite base_fields_equiv, ud_value_equiv. reflexivity. Qed.

  Lemma proc_desc_equiv cr p : allow_plugins c = true -> proc_desc e1 cr p = proc_desc e2 cr p.
  Proof. intros Ep. unfold proc_desc. destruct H as (_ & _ & Hp). destruct (Hp Ep) as (_ & _ & Hc). rewrite Hc. reflexivity. Qed.

  Lemma render_callout_equiv cr co : render_callout e1 c cr co = render_callout e2 c cr co.
  Proof.
    unfold render_callout. destruct (utf8_decode (c_loc co)); [|reflexivity].
    destruct (last_fru (c_subs co)) as [f|]; [|reflexivity].
    destruct (utf8_decode (f_pn f)), (utf8_decode (f_ccin f)), (utf8_decode (f_sn f)); try reflexivity.
    destruct (allow_plugins c) eqn:Ep; [|reflexivity]. rewrite (proc_desc_equiv cr _ Ep). reflexivity.
  Qed.

  Lemma render_callouts_equiv cr cs : render_callouts e1 c cr cs = render_callouts e2 c cr cs.
  Proof.
    unfold render_callouts. destruct (forallb _ (cs_list cs)); [|reflexivity].
    rewrite (map_ext _ _ (render_callout_equiv cr)). reflexivity.
  Qed.

  Lemma src_details_equiv cr a ws : allow_plugins c = true -> src_details e1 cr a ws = src_details e2 cr a ws.
  Proof.
    intros Ep. unfold src_details. destruct H as (_ & _ & Hp). destruct (Hp Ep) as (_ & Hs & _). specialize (Hs (src_module cr)).
    destruct (src_import e1 (src_module cr)), (src_import e2 (src_module cr)); cbn in Hs; try contradiction; try reflexivity.
    subst. reflexivity.
  Qed.

  Lemma error_details_equiv ws a : error_details e1 ws a = error_details e2 ws a.
  Proof. unfold error_details. destruct H as (Hr & _). rewrite Hr. reflexivity. Qed.

  Lemma render_src_equiv h cr s : render_src e1 c h cr s = render_src e2 c h cr s.
  Proof.
    unfold render_src. destruct (utf8_decode (s_ascii s)); [|reflexivity].
    rewrite error_details_equiv.
    match goal with |- match ?X with Some _ => _ | None => _ end = _ => destruct X; [|reflexivity] end.
    rewrite base_fields_equiv.
    assert (Hc: match s_callouts s with
                | None => Some []
                | Some cs => option_map (fun l => [(L "Callout Section", JObj l)]) (render_callouts e1 c cr cs)
                end = match s_callouts s with
                | None => Some []
                | Some cs => option_map (fun l => [(L "Callout Section", JObj l)]) (render_callouts e2 c cr cs)
                end) by (destruct (s_callouts s); [rewrite render_callouts_equiv|]; reflexivity).
    rewrite Hc. clear Hc.
    match goal with |- match ?X with Some _ => _ | None => _ end = _ => destruct X; [|reflexivity] end.
    destruct (allow_plugins c) eqn:Ep; [|reflexivity]. rewrite (src_details_equiv cr _ _ Ep). reflexivity.
  Qed.

  Lemma render_section_equiv cr s : render_section e1 c cr s = render_section e2 c cr s.
  Proof.
    unfold render_section. destruct (sec_body s); rewrite ?render_src_equiv, ?render_eh_equiv, ?render_mt_equiv, ?render_lp_equiv, ?render_ud_equiv; reflexivity.
  Qed.

  Lemma decode_sections_equiv cr : forall n data, decode_sections e1 c cr n data = decode_sections e2 c cr n data.
  Proof.
    induction n as [|n IH]; intros data; cbn [decode_sections]; [reflexivity|].
    destruct (parse_section data) as [[[s|] rest]|]; try reflexivity.
    rewrite render_section_equiv, IH. reflexivity.
  Qed.

  Theorem decode_equiv consider data : decode e1 c consider data = decode e2 c consider data.
  Proof.
    unfold decode. destruct (parse_header data) as [[[[id len] h] rest]|]; [|reflexivity].
    destruct (negb _); [reflexivity|]. destruct (parse_ph_body len h rest) as [[ph rest2]|]; [|reflexivity].
    rewrite render_ph_equiv. destruct (render_ph e2 ph) as [[cr phj]|]; [|reflexivity].
    destruct (parse_header rest2) as [[[[id2 len2] h2] rest3]|]; [|reflexivity].
    destruct (negb _); [reflexivity|]. destruct (parse_uh_body len2 h2 rest3) as [[uh rest4]|]; [|reflexivity].
    rewrite render_uh_equiv, decode_sections_equiv. reflexivity.
  Qed.

  Lemma decode_headers_equiv data : decode_headers e1 data = decode_headers e2 data.
  Proof.
    unfold decode_headers. destruct (parse_header data) as [[[[id len] h] rest]|]; [|reflexivity].
    destruct (negb _); [reflexivity|]. destruct (parse_ph_body len h rest) as [[ph rest2]|]; [|reflexivity].
    rewrite render_ph_equiv. destruct (render_ph e2 ph) as [[cr phj]|]; [|reflexivity].
    destruct (parse_header rest2) as [[[[id2 len2] h2] rest3]|]; [|reflexivity].
    destruct (negb _); [reflexivity|]. destruct (parse_uh_body len2 h2 rest3) as [[uh rest4]|]; [|reflexivity].
    rewrite render_uh_equiv. reflexivity.
  Qed.

  Lemma summary_src_equiv cr : forall n data, summary_src e1 c cr n data = summary_src e2 c cr n data.
  Proof.
    induction n as [|n IH]; intros data; cbn [summary_src]; [reflexivity|].
    destruct (parse_section data) as [[[s|] rest]|]; try reflexivity.
    rewrite render_section_equiv. destruct (render_section e2 c cr s) as [[nm o]|]; [|reflexivity].
    destruct (sec_id s =? _); [reflexivity|apply IH].
  Qed.

  Theorem decode_summary_equiv consider data : decode_summary e1 c consider data = decode_summary e2 c consider data.
  Proof.
    unfold decode_summary. rewrite decode_headers_equiv. destruct (decode_headers e2 data); try reflexivity.
    destruct (negb _); [reflexivity|]. rewrite summary_src_equiv. reflexivity.
  Qed.

  Theorem decode_count_equiv consider data : decode_count e1 consider data = decode_count e2 consider data.
  Proof. unfold decode_count. rewrite decode_headers_equiv. reflexivity. Qed.
End Equiv.
