From Coq Require Import List NArith ZArith Bool Arith Lia.
From PV Require Import Base.Bytes Base.Lit Base.Json Base.PelTypes Model.Parse Model.Render Spec.Encode Spec.DocOf
                       Proofs.BytesFacts Proofs.RenderFacts Proofs.UdFacts.
Import ListNotations.
Open Scope N_scope.

(* the code's numbering (a counter per name) is the specification's (number of earlier occurrences) *)
Lemma number_names_spec all_names : forall names seen earlier,
  (forall n, count_name seen n = occurrences earlier n) ->
  number_names all_names seen names = number_from all_names earlier names.
Proof.
  induction names as [|n t IH]; intros seen earlier H; [reflexivity|].
  cbn [number_names number_from]. rewrite H. f_equal.
  apply IH. intros m. unfold count_name, occurrences in *. cbn [filter].
  rewrite filter_app, app_length. cbn [filter]. specialize (H m).
  destruct (text_eqb m n); cbn [length]; lia.
Qed.

Theorem numbered_spec names : numbered names = numbered_names names.
Proof. apply number_names_spec. intros n. reflexivity. Qed.

(* what the numbering means, position by position *)
Theorem numbered_nth names : forall i n, nth_error names i = Some n ->
  nth_error (numbered_names names) i =
    Some (if Nat.eqb (occurrences names n) 1 then n else n ++ L " " ++ dec (N.of_nat (occurrences (firstn i names) n))).
Proof.
  unfold numbered_names.
  assert (G: forall rest earlier i n, nth_error rest i = Some n ->
            nth_error (number_from names earlier rest) i =
            Some (if Nat.eqb (occurrences names n) 1 then n else n ++ L " " ++ dec (N.of_nat (occurrences (earlier ++ firstn i rest) n)))).
  { induction rest as [|m t IH]; intros earlier i n H; [destruct i; discriminate|].
    destruct i as [|i]; cbn [nth_error number_from firstn] in *.
    - inversion H; subst. rewrite app_nil_r. reflexivity.
    - rewrite (IH (earlier ++ [m]) i n H). rewrite <- app_assoc. reflexivity. }
  intros i n H. rewrite (G names [] i n H). reflexivity.
Qed.

Lemma numbered_length names : length (numbered_names names) = length names.
Proof.
  unfold numbered_names. generalize (@nil text) as earlier. generalize names at 1 as all_names.
  induction names as [|n t IH]; intros; [reflexivity|]. cbn [number_from length]. rewrite IH. reflexivity.
Qed.

(* section names: the two characters of the id through the published table *)
Theorem section_name_spec id : id < 65536 -> section_name id = name_of_id id.
Proof.
  intros H. unfold section_name, name_of_id. rewrite tables_agree_sections, lookup_t_assoc, !land255, shiftr8.
  assert (id / 256 < 256) by (apply N.div_lt_upper_bound; lia).
  rewrite (N.mod_small (id / 256) 256) by assumption. reflexivity.
Qed.

(* buildOutput with pairwise distinct keys is plain concatenation *)
Lemma obj_set_fresh l k v : ~ In k (map fst l) -> obj_set l k v = l ++ [(k, v)].
Proof.
  induction l as [|[k' v'] t IH]; intros Hn; [reflexivity|]. cbn [obj_set map fst In] in *.
  destruct (text_eqb k k') eqn:E.
  - apply text_eqb_eq in E. exfalso. apply Hn. left. congruence.
  - rewrite IH by tauto. reflexivity.
Qed.

Theorem build_output_distinct hdrs (secs : list (text * list (text * json))) :
  NoDup (map fst hdrs ++ numbered (map fst secs)) ->
  build_output hdrs secs = hdrs ++ combine (numbered (map fst secs)) (map (fun s => JObj (snd s)) secs).
Proof.
  unfold build_output. generalize (numbered (map fst secs)) as names. generalize (map (fun s => JObj (snd s)) secs) as bodies.
  intros bodies names. revert bodies hdrs. induction names as [|n t IH]; intros bodies hdrs Hnd.
  - cbn. rewrite app_nil_r. reflexivity.
  - destruct bodies as [|b bs]; [cbn; rewrite app_nil_r; reflexivity|]. cbn [combine fold_left fst snd].
    rewrite obj_set_fresh.
    + rewrite IH.
      * rewrite <- app_assoc. reflexivity.
      * rewrite map_app. cbn [map fst]. rewrite <- app_assoc. exact Hnd.
    + apply NoDup_remove_2 in Hnd. intros Hin. apply Hnd. apply in_or_app. left. exact Hin.
Qed.

Lemma all_some_names e c creator secs r :
  all_some (map (render_section e c creator) secs) = Some r ->
  map fst r = map (fun s => section_name (sec_id s)) secs.
Proof.
  revert r; induction secs as [|s t IH]; intros r H; cbn [map all_some] in H.
  - inversion H; reflexivity.
  - destruct (render_section e c creator s) as [[n o]|] eqn:Es; [|discriminate].
    destruct (all_some (map (render_section e c creator) t)) as [r'|] eqn:Et; [|discriminate].
    inversion H; subst. cbn [map fst]. f_equal; [|apply IH; reflexivity].
    unfold render_section in Es. destruct (match sec_body s with BSrc x => _ | _ => _ end); [|discriminate].
    cbn [option_map] in Es. inversion Es. reflexivity.
Qed.
