From Coq Require Import List NArith ZArith Bool Arith Lia.
From PV Require Import Base.Bytes Base.Lit Base.Json Base.PelTypes Model.Render Spec.DocOf.
Import ListNotations.
Open Scope N_scope.

(* messages whose placeholders are %1, %2, ... in this order (from the k-th on), brace-free, with enough argument sources *)
Fixpoint ordered (msg : text) (k nargs : nat) : bool :=
  match msg with
  | [] => true
  | c :: t =>
      if (c =? 123) || (c =? 125) then false
      else if c =? 37 then
        match t with
        | d :: t' => if (49 <=? d) && (d <=? 57) then Nat.eqb (N.to_nat (d - 49)) k && Nat.ltb k nargs && ordered t' (S k) nargs
                     else ordered t k nargs
        | [] => true
        end
      else ordered t k nargs
  end.

Lemma skipn_nth {A} (d : A) : forall k l, (k < length l)%nat -> skipn k l = nth k l d :: skipn (S k) l.
Proof. induction k as [|k IH]; intros [|x l] H; simpl in *; try lia; [reflexivity|]. apply IH. lia. Qed.

(* positional filling (what the code does) = filling by number (what the message says), on ordered messages *)
Theorem fill_ordered : forall n msg vals k, (length msg <= n)%nat -> ordered msg k (length vals) = true ->
  fill_message msg (skipn k vals) = Some (fill_by_number msg vals).
Proof.
  induction n as [|n IH]; intros msg vals k Hl Ho.
  - destruct msg; [reflexivity|simpl in Hl; lia].
  - destruct msg as [|c t]; [reflexivity|]. cbn [fill_message fill_by_number ordered] in *.
    destruct ((c =? 123) || (c =? 125)); [discriminate|].
    destruct (c =? 37).
    + destruct t as [|d t']; [reflexivity|].
      destruct ((49 <=? d) && (d <=? 57)) eqn:Ed.
      * apply andb_prop in Ho. destruct Ho as [Ho Ho3]. apply andb_prop in Ho. destruct Ho as [Ho1 Ho2].
        apply Nat.eqb_eq in Ho1. apply Nat.ltb_lt in Ho2.
        pose proof (@skipn_nth text [] k vals Ho2) as Es. destruct (skipn k vals) as [|a args']; [discriminate|].
        assert (a = nth k vals [] /\ args' = skipn (S k) vals) as [-> ->] by (split; congruence). clear Es.
        rewrite (IH t' vals (S k)); [|simpl in Hl; lia|exact Ho3].
        cbn [option_map]. rewrite Ho1. reflexivity.
      * rewrite (IH (d :: t') vals k); [reflexivity|simpl in *; lia|exact Ho].
    + rewrite (IH t vals k); [reflexivity|simpl in *; lia|exact Ho].
Qed.

(* "SRCWordN" (any text ending in the digit N, 2 <= N <= 9) refers to hex word N *)
Lemma arg_word_spec ws pre n : length ws = 8%nat -> 2 <= n <= 9 -> arg_word ws (pre ++ [48 + n]) = Some (referenced_word ws n).
Proof.
  intros Hl Hn. unfold arg_word. rewrite rev_app_distr. cbn [rev app]. unfold digit_val.
  assert ((48 <=? 48 + n) && (48 + n <=? 57) = true) as -> by (apply andb_true_intro; split; apply N.leb_le; lia).
  replace (48 + n - 48) with n by lia. unfold py_index. rewrite Hl.
  assert ((0 <=? Z.of_N n - 2)%Z && (Z.of_N n - 2 <? Z.of_nat 8)%Z = true) as ->.
  { apply andb_true_intro. split; [apply Z.leb_le|apply Z.ltb_lt]; lia. }
  unfold referenced_word. replace (Z.to_nat (Z.of_N n - 2)) with (N.to_nat (n - 2)) by lia.
  apply nth_error_nth'. rewrite Hl. lia.
Qed.

Definition names_word (src : text) (n : N) : Prop := exists pre, src = pre ++ [48 + n] /\ 2 <= n <= 9.

Lemma args_words ws srcs ns : length ws = 8%nat -> Forall2 names_word srcs ns ->
  all_some (map (arg_word ws) srcs) = Some (map (referenced_word ws) ns).
Proof.
  intros Hl H. induction H as [|src n srcs ns (pre & -> & Hn) Hr IH]; [reflexivity|].
  cbn [map all_some]. rewrite arg_word_spec by assumption. rewrite IH. reflexivity.
Qed.

(* C03: the registry message is filled with the referenced hex words *)
Theorem registry_message_filled ws p srcs ns : length ws = 8%nat -> r_args p = Some srcs -> Forall2 names_word srcs ns ->
  ordered (r_message p) 0 (length ns) = true ->
  build_message ws p = Some (fill_by_number (r_message p) (map (fun n => hex_of (referenced_word ws n)) ns)).
Proof.
  intros Hl Ha Hs Ho. unfold build_message. rewrite Ha, (args_words ws srcs ns Hl Hs).
  rewrite map_map. change (fun x => py_hex (referenced_word ws x)) with (fun n => hex_of (referenced_word ws n)).
  rewrite <- (fill_ordered (length (r_message p)) (r_message p) _ 0); [reflexivity|lia|rewrite map_length; exact Ho].
Qed.

Theorem registry_message_plain ws p : r_args p = None -> build_message ws p = Some (r_message p).
Proof. intros H. unfold build_message. rewrite H. reflexivity. Qed.

(* which entry: the first one of the SRC's type ("BD" when none is given) whose reason code contains "0x" + characters 4..7 *)
Theorem registry_entry_first reg code ty p : reg_find reg code ty = Some p ->
  exists pre post rc, reg = pre ++ p :: post /\ r_reason p = Some rc /\ substrb code rc = true /\
    text_eqb ty (match r_type p with Some t => t | None => L "BD" end) = true.
Proof.
  unfold reg_find. induction reg as [|q t IH]; cbn [List.find]; [discriminate|].
  destruct (r_reason q) as [rc|] eqn:Er.
  - destruct (text_eqb ty _ && substrb code rc) eqn:E.
    + intros H. inversion H; subst. apply andb_prop in E. destruct E as [E1 E2]. exists [], t, rc. repeat split; assumption.
    + intros H. destruct (IH H) as (pre & post & rc' & -> & H1 & H2 & H3). exists (q :: pre), post, rc'. repeat split; assumption.
  - intros H. destruct (IH H) as (pre & post & rc' & -> & H1 & H2 & H3). exists (q :: pre), post, rc'. repeat split; assumption.
Qed.

(* the described hex words 6..9 are shown with the stored word *)
Theorem registry_word_desc ws w d n acc : length ws = 8%nat -> rw_desc w = Some d -> rw_num w = [48 + n] -> 2 <= n <= 9 ->
  hexword_descs ws [w] acc = Some (obj_set acc (rw_source w) (JArr [jn (referenced_word ws n); js d])).
Proof.
  intros Hl Hd Hn Hr. cbn [hexword_descs]. rewrite Hd, Hn. unfold word_num, digit_val.
  assert ((48 <=? 48 + n) && (48 + n <=? 57) = true) as -> by (apply andb_true_intro; split; apply N.leb_le; lia).
  replace (48 + n - 48) with n by lia. unfold py_index. rewrite Hl.
  assert ((0 <=? Z.of_N n - 2)%Z && (Z.of_N n - 2 <? Z.of_nat 8)%Z = true) as ->.
  { apply andb_true_intro. split; [apply Z.leb_le|apply Z.ltb_lt]; lia. }
  unfold referenced_word. replace (Z.to_nat (Z.of_N n - 2)) with (N.to_nat (n - 2)) by lia.
  rewrite (nth_error_nth' ws 0) by (rewrite Hl; lia). reflexivity.
Qed.
