(* The model's choice of a section-body reader (Model/Parse.v parse_body) is the reader of the class the dispatch table of
   sectionFun gives, for every section id. *)
From Coq Require Import List NArith Bool.
From PV Require Import Base.Bytes Base.Lit Base.Reader Base.PelTypes Gen.Tables Model.Parse Spec.PublishedSections.
Import ListNotations.
Open Scope N_scope.

Fixpoint class_of (tbl : list (list N * list N)) (dflt : list N) (id : N) : list N :=
  match tbl with
  | [] => dflt
  | (ids, cls) :: t => if existsb (N.eqb id) ids then cls else class_of t dflt id
  end.

(* the model's reader of each class: the constructor's reads followed by those of toJSON *)
Definition reader_of_class (cls : list N) (len : N) : reader (option body_t) :=
  if text_eqb cls (L "SRC") then s <- parse_src ;; ret (option_map BSrc s)
  else if text_eqb cls (L "ExtendedUserHeader") then e <- parse_eh ;; ret (Some (BEh e))
  else if text_eqb cls (L "FailingMTMS") then t <- parse_mt ;; ret (Some (BMt t))
  else if text_eqb cls (L "ExtUserData") then
    c <- get_int 1 ;; r1 <- get_int 1 ;; r2 <- get_int 2 ;; d <- get_memN (len - 12) ;; ret (Some (BEd c r1 r2 d))
  else if text_eqb cls (L "UserData") then d <- get_memN (len - 8) ;; ret (Some (BUd d))
  else if text_eqb cls (L "ImpactedPartition") then l <- parse_lp ;; ret (Some (BLp l))
  else d <- get_memN (len - 8) ;; ret (Some (BOther d)).

Theorem parse_body_is_dispatch : forall id len,
  parse_body id len = reader_of_class (class_of section_dispatch section_default id) len.
Proof.
  intros id len. unfold parse_body, section_dispatch, section_default. cbn [class_of existsb].
  change SectionID_primarySRC with 20563. change SectionID_secondarySRC with 21331.
  change SectionID_extendedUserHeader with 17736. change SectionID_failingMTMS with 19796.
  change SectionID_extUserData with 17732. change SectionID_userData with 21828. change SectionID_impactedPart with 19536.
  rewrite !orb_false_r.
  destruct (id =? 20563) eqn:E1; [reflexivity|]. destruct (id =? 21331) eqn:E2; [reflexivity|]. cbn [orb].
  destruct (id =? 17736); [reflexivity|]. destruct (id =? 19796); [reflexivity|].
  destruct (id =? 17732); [reflexivity|]. destruct (id =? 21828); [reflexivity|].
  destruct (id =? 19536); reflexivity.
Qed.
