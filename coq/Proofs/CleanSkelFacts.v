(* The model's programs of the two --clean paths (Model/Clean.v json_prog / file_prog) are what the published effect skeletons do
   along every fault-free path; the skeletons are proved equal to the ones extracted from the source text in Props/C12.v. *)
From Coq Require Import List NArith Bool.
From PV Require Import Base.Bytes Base.Lit Model.Clean Spec.PublishedSkeletons.
Import ListNotations.

Definition is_ok (d : dec) : bool := match d with DOk => true | _ => false end.

(* --json: for every decode outcome and both settings of --clean *)
Theorem json_prog_is_skeleton d clean : json_prog d clean = fst (run_sk (is_ok d) clean false false sk_json).
Proof. destruct d, clean; reflexivity. Qed.

(* --file: parseAndPrintPELFile prints (document or hex display) and answers whether it did; main() then flushes and removes only
   if --clean was given and something was printed *)
Definition file_steps (d : dec) (clean hexm : bool) : list step :=
  let '(printed_steps, ret) := run_sk (is_ok d) clean hexm false sk_print_file in
  let pr := match ret with Some b => b | None => false end in
  printed_steps ++ fst (run_sk (is_ok d) clean hexm pr sk_main_file).

Theorem file_prog_is_skeleton d clean hexm : file_prog d clean = file_steps d clean hexm.
Proof. destruct d, clean, hexm; reflexivity. Qed.

(* no unknown file or stream operation occurs in the published skeletons *)
Fixpoint no_unknown (s : skel) : bool :=
  match s with
  | SSeq l => forallb no_unknown l
  | SIfDecoded t e | SIfClean t e | SIfCleanAndPrinted t e | SIfHex t e | SIfOther _ t e => no_unknown t && no_unknown e
  | SWithOut b | SLoop b => no_unknown b
  | STry _ b h => no_unknown b && no_unknown h
  | SUnknown _ => false
  | _ => true
  end.
Theorem published_skeletons_known : no_unknown sk_json && no_unknown sk_print_file && no_unknown sk_main_file = true.
Proof. reflexivity. Qed.

(* ---- the per-file exception barrier of the directory modes ---- *)
Fixpoint handler_ok (s : skel) : bool :=
  match s with SSeq l => forallb handler_ok l | SStderr | SContinue => true | _ => false end.

Definition is_exception (t : text) : bool := text_eqb t [69;120;99;101;112;116;105;111;110].       (* "Exception" *)

(* inside a per-file loop, whatever prints, writes, removes or opens a file without the helper sits under
   try / except Exception with a handler that only reports on stderr *)
Fixpoint guarded (in_loop under_try : bool) (s : skel) : bool :=
  match s with
  | SSeq l => forallb (guarded in_loop under_try) l
  | SIfDecoded t e | SIfClean t e | SIfCleanAndPrinted t e | SIfHex t e | SIfOther _ t e => guarded in_loop under_try t && guarded in_loop under_try e
  | SWithOut b => (negb in_loop || under_try) && guarded in_loop under_try b
  | STry exc b h => is_exception exc && guarded in_loop true b && handler_ok h
  | SLoop b => guarded true under_try b
  | SPrint | SPrintHex | SWrite | SFlush | SRemove | SOpenRaw | SCallPrintFile => negb in_loop || under_try
  | SUnknown _ => false
  | _ => true
  end.

Theorem directory_modes_guarded :
  guarded false false sk_extractAllPELsData && guarded false false sk_printPELCount && guarded false false sk_parsePelFromPLID &&
  guarded false false sk_parsePelFromSRCID && guarded false false sk_parsePelFromBmcID && guarded true false sk_extractAndSummarizePEL &&
  guarded true false sk_json = true.
Proof. vm_compute. reflexivity. Qed.

Theorem directory_skeletons_known :
  no_unknown sk_openPELFile && no_unknown sk_extractAllPELsData && no_unknown sk_printPELCount && no_unknown sk_extractAndSummarizePEL &&
  no_unknown sk_parsePelFromPLID && no_unknown sk_parsePelFromSRCID && no_unknown sk_parsePelFromBmcID = true.
Proof. vm_compute. reflexivity. Qed.

(* the helper: open for reading under try / except OSError; on failure a diagnostic on stderr and None *)
Theorem open_helper_shape :
  sk_openPELFile = SSeq [STry [79;83;69;114;114;111;114] (SSeq [SOpenRaw; SReturnV (L "open(file, 'rb')")]) (SSeq [SStderr; SReturn false])].
Proof. vm_compute. reflexivity. Qed.

(* ---- delete ---- *)
(* the outer os.walk loop is left after its first round: the last statement of its body is a break *)
Definition stops_after_first_round (s : skel) : bool :=
  match s with
  | SSeq (SLoop (SSeq body) :: _) => match rev body with SBreak :: _ => true | _ => false end
  | _ => false
  end.
(* in the per-file loop a removal is immediately followed by a break *)
Fixpoint remove_then_break (l : list skel) : bool :=
  match l with
  | SRemove :: SBreak :: t => remove_then_break t
  | SRemove :: _ => false
  | _ :: t => remove_then_break t
  | [] => true
  end.
Definition inner_loop (s : skel) : list skel :=
  match s with SSeq (SLoop (SSeq (SLoop (SSeq l) :: _)) :: _) => l | _ => [SUnknown []] end.

Theorem delete_skeleton_facts :
  stops_after_first_round sk_deleteAllPELs && stops_after_first_round sk_deletePELFromPELId && stops_after_first_round sk_parsePelFromID &&
  remove_then_break (inner_loop sk_deletePELFromPELId) && no_unknown sk_deleteAllPELs && no_unknown sk_deletePELFromPELId && no_unknown sk_parsePelFromID = true.
Proof. vm_compute. reflexivity. Qed.
