From Coq Require Import List NArith ZArith Bool Arith Lia.
From PV Require Import Base.Bytes Base.Lit Model.Hexdump Spec.DumpFormats Proofs.BytesFacts Proofs.HexdumpFacts.
Import ListNotations.
Open Scope N_scope.

Ltac bytes_cons_form :=
  repeat match goal with
  | H : ?b < 256 |- context[hexU 2 ?b] => rewrite (hexU2_byte b H)
  end.

Ltac inv_foralls := repeat match goal with H : Forall _ (_ :: _) |- _ => inversion H; clear H; subst end.

Ltac fin dig G :=
  inv_foralls;
  cbn [raw_col raw_col1 raw_col2 flat_map Nat.eqb Nat.modulo Nat.divmod fst snd negb andb Nat.sub app];
  bytes_cons_form;
  cbn [hex_fixed app text_col map ljust repeat length Nat.sub L Ascii.N_of_ascii];
  change 65 with cA; change 68 with cD; change 67 with cC;
  repeat pl_step dig G; reflexivity.

Ltac go dig G n l Hl :=
  destruct l as [|? l];
  [ first [exfalso; simpl in Hl; lia | fin dig G]
  | lazymatch n with
    | O => exfalso; simpl in Hl; lia
    | S ?k => go dig G k l Hl
    end ].

(* ---- default format ---- *)
Lemma line_rt_default off l : off < 2 ^ 32 -> Forall (fun b => b < 256) l -> (1 <= length l <= 16)%nat ->
  parse_line default_fmt (dump_line 16 4 off l) = l.
Proof.
  intros Ho Hf Hl. unfold parse_line. rewrite dump_line_rstrip by lia.
  rewrite dump_line_length by (auto; lia).
  change (Nat.leb (line_width 16 4) (length default_fmt)) with true. cbn iota.
  unfold dump_line. rewrite hexU8_off by assumption. change (char_per_line 16 4) with 38%nat.
  let f := eval vm_compute in default_fmt in change default_fmt with f.
  go hexdigU good_digU 16%nat l Hl.
Qed.

Lemma lines_rt_default : forall ls off,
  Forall (fun l => (1 <= length l <= 16)%nat /\ Forall (fun b => b < 256) l) ls ->
  off + 16 * N.of_nat (length ls) <= 2 ^ 32 ->
  parse default_fmt (dump_lines 16 4 off ls) = concat ls.
Proof.
  induction ls as [|l t IH]; intros off Hf Ho; [reflexivity|].
  inversion Hf as [|? ? [H1 H2] Hf']; subst. simpl length in Ho.
  unfold parse in *. cbn [dump_lines flat_map concat]. rewrite line_rt_default by (auto; lia).
  f_equal. change (N.of_nat 16) with 16. apply IH; [assumption|lia].
Qed.

Lemma chunk_blocks_bytes n d : (1 <= n)%nat -> Forall (fun b => b < 256) d ->
  Forall (fun l => (1 <= length l <= n)%nat /\ Forall (fun b => b < 256) l) (chunk n d).
Proof.
  intros Hn Hd. pose proof (chunk_fuel_blocks (length d) n d Hn (le_n _)) as Hblk. fold (chunk n d) in Hblk.
  pose proof (chunk_concat n d Hn) as Hcc. rewrite <- Hcc in Hd. apply Forall_concat in Hd.
  clear - Hblk Hd. induction Hblk; inversion Hd; subst; constructor; auto.
Qed.

Lemma chunk_count_le n d : (1 <= n)%nat -> (length (chunk n d) <= length d)%nat.
Proof.
  intros Hn. pose proof (chunk_fuel_blocks (length d) n d Hn (le_n _)) as Hblk. fold (chunk n d) in Hblk.
  rewrite <- (chunk_concat n d Hn) at 2. apply (concat_length_blocks n). assumption.
Qed.

Lemma chunk16_bound d : N.of_nat (length d) + 16 <= 2 ^ 32 -> 0 + 16 * N.of_nat (length (chunk 16 d)) <= 2 ^ 32.
Proof.
  intros H. unfold chunk. rewrite chunk_fuel_length by lia.
  assert (Nat.div (length d + 16 - 1) 16 * 16 <= length d + 16 - 1)%nat by (rewrite Nat.mul_comm; apply Nat.mul_div_le; lia).
  lia.
Qed.

Theorem hexdump_roundtrip d : Forall (fun b => b < 256) d -> N.of_nat (length d) + 16 <= 2 ^ 32 ->
  parse default_fmt (hexdump d) = d.
Proof.
  intros Hd Hlen. unfold hexdump. rewrite lines_rt_default.
  - apply chunk_concat. lia.
  - apply chunk_blocks_bytes; [lia|assumption].
  - apply chunk16_bound. assumption.
Qed.

(* ---- I/O drawer format 1 (BMC) ---- *)
Lemma rstrip_nl_line s c : is_nl c = false -> rstrip_by is_nl ((s ++ [c]) ++ [nl]) = s ++ [c].
Proof.
  intros H. rewrite rstrip_by_rev. rewrite rev_app_distr. change (rev [nl]) with [nl]. cbn [app lstrip_by].
  change (is_nl nl) with true. cbn iota. rewrite <- rstrip_by_rev. apply rstrip_by_last. assumption.
Qed.

Lemma line_rt_fmt1 dig off l : good_dig dig -> Forall (fun b => b < 256) l -> (1 <= length l <= 16)%nat ->
  parse_line fmt1 (render1_line dig off l) = l.
Proof.
  intros G Hf Hl. unfold parse_line, render1_line. change (L ">") with [62].
  replace (hex_fixed dig 4 off ++ L ":  " ++ ljust 35 sp (raw_col1 dig 0 l) ++ L "  <" ++ ljust 16 sp (text_col l) ++ [62] ++ [nl])
    with (((hex_fixed dig 4 off ++ L ":  " ++ ljust 35 sp (raw_col1 dig 0 l) ++ L "  <" ++ ljust 16 sp (text_col l)) ++ [62]) ++ [nl])
    by (rewrite <- !app_assoc; reflexivity).
  rewrite rstrip_nl_line by reflexivity.
  let f := eval vm_compute in fmt1 in change fmt1 with f.
  assert (HL: forall l0 : bytes, (1 <= length l0 <= 16)%nat -> Forall (fun b => b < 256) l0 ->
     length ((hex_fixed dig 4 off ++ L ":  " ++ ljust 35 sp (raw_col1 dig 0 l0) ++ L "  <" ++ ljust 16 sp (text_col l0)) ++ [62]) = 62%nat).
  { clear. intros l0 Hl0 _. rewrite !app_length, !ljust_length, hex_fixed_length. unfold text_col. rewrite map_length.
    do 17 (destruct l0 as [|? l0]; [simpl in *; try lia|]). simpl in Hl0. lia. }
  rewrite HL by assumption. cbn [length Nat.leb]. clear HL.
  rewrite <- !app_assoc.
  go dig G 16%nat l Hl.
Qed.

Lemma lines_rt_fmt1 dig : good_dig dig -> forall ls off,
  Forall (fun l => (1 <= length l <= 16)%nat /\ Forall (fun b => b < 256) l) ls ->
  parse fmt1 (render1_lines dig off ls) = concat ls.
Proof.
  intros G. induction ls as [|l t IH]; intros off Hf; [reflexivity|].
  inversion Hf as [|? ? [H1 H2] Hf']; subst.
  unfold parse in *. cbn [render1_lines flat_map concat]. rewrite line_rt_fmt1 by auto.
  f_equal. apply IH. assumption.
Qed.

Theorem render1_roundtrip dig d : good_dig dig -> Forall (fun b => b < 256) d -> parse fmt1 (render1 dig d) = d.
Proof.
  intros G Hd. unfold render1. rewrite lines_rt_fmt1; auto.
  - apply chunk_concat. lia.
  - apply chunk_blocks_bytes; [lia|assumption].
Qed.

(* ---- I/O drawer format 2 (pre-BMC) ---- *)
Lemma line_rt_fmt2 dig l : good_dig dig -> Forall (fun b => b < 256) l -> (1 <= length l <= 16)%nat ->
  parse_line fmt2 (render2_line dig l) = l.
Proof.
  intros G Hf Hl. unfold parse_line, render2_line.
  destruct (text_col_pad_last 16 l) as (s & c & E & Hc); [lia|]. rewrite E.
  replace (ljust 48 sp (raw_col2 dig l) ++ (s ++ [c]) ++ [nl]) with (((ljust 48 sp (raw_col2 dig l) ++ s) ++ [c]) ++ [nl])
    by (rewrite <- !app_assoc; reflexivity).
  rewrite rstrip_nl_line by assumption. rewrite <- app_assoc, <- E. clear E Hc s c.
  let f := eval vm_compute in fmt2 in change fmt2 with f.
  assert (HL: length (ljust 48 sp (raw_col2 dig l) ++ ljust 16 sp (text_col l)) = 64%nat).
  { rewrite !app_length, !ljust_length. unfold text_col. rewrite map_length. clear - Hl.
    do 17 (destruct l as [|? l]; [simpl in *; try lia|]). simpl in Hl. lia. }
  rewrite HL. cbn [length Nat.leb]. clear HL.
  go dig G 16%nat l Hl.
Qed.

Theorem render2_roundtrip dig d : good_dig dig -> Forall (fun b => b < 256) d -> parse fmt2 (render2 dig d) = d.
Proof.
  intros G Hd. unfold render2, parse. rewrite flat_map_concat_map, map_map.
  rewrite <- (chunk_concat 16 d) at 2 by lia. f_equal.
  pose proof (chunk_blocks_bytes 16 d ltac:(lia) Hd) as Hb.
  induction Hb as [|l t [H1 H2] Hb IH]; [reflexivity|]. cbn [map]. rewrite line_rt_fmt2 by auto. f_equal. exact IH.
Qed.

(* ---- a dump in one format is not mistaken for the other (auto-detection in parse_dump_file) ---- *)
Lemma lstrip_keep p c v : p c = false -> forall u, exists u', lstrip_by p (u ++ c :: v) = u' ++ c :: v.
Proof.
  intros Hc. induction u as [|x u IH].
  - exists []. simpl. rewrite Hc. reflexivity.
  - cbn [app lstrip_by]. destruct (p x).
    + exact IH.
    + exists (x :: u). reflexivity.
Qed.
Lemma rstrip_keep p a c r : p c = false -> exists r', rstrip_by p (a ++ c :: r) = a ++ c :: r'.
Proof.
  intros Hc. rewrite rstrip_by_rev. rewrite rev_app_distr. cbn [rev]. rewrite <- app_assoc. cbn [app].
  destruct (lstrip_keep p c (rev a) Hc (rev r)) as (u' & ->).
  exists (rev u'). rewrite rev_app_distr. cbn [rev]. rewrite rev_involutive, <- app_assoc. reflexivity.
Qed.

Lemma fmt1_rejects_render2_line dig l : good_dig dig -> l <> [] -> Forall (fun b => b < 256) l ->
  parse_line fmt1 (render2_line dig l) = [].
Proof.
  intros G Hl Hf. unfold parse_line. destruct (Nat.leb _ _); [|reflexivity].
  unfold render2_line. destruct l as [|b t]; [congruence|].
  unfold ljust at 1. cbn [raw_col2 flat_map]. rewrite <- !app_assoc. cbn [app].
  destruct (rstrip_keep is_nl [dig (b / 16); dig (b mod 16)] sp
             (flat_map (fun b0 : N => [dig (b0 / 16); dig (b0 mod 16); sp]) t ++
              repeat sp (48 - length ([dig (b / 16); dig (b mod 16); sp] ++ flat_map (fun b0 : N => [dig (b0 / 16); dig (b0 mod 16); sp]) t)) ++
              ljust 16 sp (text_col (b :: t)) ++ [nl]) eq_refl) as (r' & E).
  cbn [app] in E. rewrite E.
  let f := eval vm_compute in fmt1 in change fmt1 with f.
  change 65 with cA.
  destruct (is_hex (dig (b / 16))) eqn:H1; [rewrite pl_A_cons by exact H1|apply pl_A_stop; exact H1].
  destruct (is_hex (dig (b mod 16))) eqn:H2; [rewrite pl_A_cons by exact H2|apply pl_A_stop; exact H2].
  apply pl_A_stop. reflexivity.
Qed.

(* ---- comment and blank lines ---- *)
Definition is_comment_line (t : text) : bool :=
  match rstrip_by is_nl t with [] => true | c :: _ => negb (is_hex c) end.

Lemma comment_line_ignored fmt t : (exists f ft, fmt = f :: ft /\ (f = cA \/ f = cD)) ->
  is_comment_line t = true -> parse_line fmt t = [].
Proof.
  intros (f & ft & -> & Hf) Hc. unfold parse_line, is_comment_line in *.
  destruct (rstrip_by is_nl t) as [|c r]; [destruct (Nat.leb _ _); reflexivity|].
  destruct (Nat.leb _ _); [|reflexivity]. apply negb_true_iff in Hc.
  destruct Hf as [-> | ->]; cbn [pl].
  - rewrite N.eqb_refl, Hc. reflexivity.
  - change (cD =? cA) with false. rewrite N.eqb_refl. cbn iota. rewrite Hc. reflexivity.
Qed.

Theorem parse_ignores_comments fmt ls : (exists f ft, fmt = f :: ft /\ (f = cA \/ f = cD)) ->
  parse fmt ls = parse fmt (filter (fun t => negb (is_comment_line t)) ls).
Proof.
  intros Hf. unfold parse. induction ls as [|t r IH]; [reflexivity|]. cbn [flat_map filter].
  destruct (is_comment_line t) eqn:E; cbn [negb].
  - rewrite comment_line_ignored by assumption. exact IH.
  - cbn [flat_map]. f_equal. exact IH.
Qed.

(* lines produced by the three renderers are never comment lines (so filtering keeps them) *)

(* ---- --hex display ---- *)
Definition print_hex (d : bytes) : list text := [pel_begin] ++ hexdump d ++ [pel_end].
Fixpoint between_markers (ls : list text) (inside : bool) : list text :=
  match ls with
  | [] => []
  | t :: r => if inside then (if text_eqb t pel_end then [] else t :: between_markers r true)
              else (if text_eqb t pel_begin then between_markers r true else between_markers r false)
  end.

Lemma text_eqb_length a b : text_eqb a b = true -> length a = length b.
Proof. revert b; induction a; destruct b; simpl; intros; try discriminate; auto. apply andb_prop in H. destruct H. f_equal; auto. Qed.

Theorem print_hex_roundtrip d : Forall (fun b => b < 256) d -> N.of_nat (length d) + 16 <= 2 ^ 32 ->
  parse default_fmt (between_markers (print_hex d) false) = d.
Proof.
  intros Hd Hlen. unfold print_hex. cbn [app between_markers].
  change (text_eqb pel_begin pel_begin) with true. cbn iota.
  assert (W: Forall (fun t => length t = 72%nat) (hexdump d)).
  { pose proof (hexdump_equal_width 16 4 d (hexdump d) eq_refl Hd) as [W _]; [simpl; lia|]. exact W. }
  assert (E: between_markers (hexdump d ++ [pel_end]) true = hexdump d).
  { induction W as [|t r Ht W IH]; cbn [app between_markers].
    - reflexivity.
    - destruct (text_eqb t pel_end) eqn:Et.
      + apply text_eqb_length in Et. rewrite Ht in Et. discriminate.
      + f_equal. exact IH. }
  rewrite E. apply hexdump_roundtrip; assumption.
Qed.
