From Coq Require Import List NArith ZArith Bool Arith Lia.
From PV Require Import Base.Bytes Base.Lit Base.Json Base.PelTypes Model.Hexdump Model.Parse Model.Render Model.Pel Model.Env
                       Proofs.BytesFacts Proofs.EnvFacts Proofs.UdFacts.
Import ListNotations.
Open Scope N_scope.

Lemma lower_upper_digit n : n < 16 -> lower_c (hexdigU n) = hexdigL n.
Proof.
  intros. unfold lower_c, hexdigL, hexdigU. destruct (N.ltb_spec n 10).
  - destruct (N.leb_spec 65 (48 + n)); [lia|]. reflexivity.
  - destruct (N.leb_spec 65 (55 + n)); [|lia]. destruct (N.leb_spec (55 + n) 90); [|lia]. cbn [andb]. lia.
Qed.
Lemma lower_hex_fixed n v : map lower_c (hex_fixed hexdigU n v) = hex_fixed hexdigL n v.
Proof.
  revert v; induction n as [|n IH]; intros v; [reflexivity|]. cbn [hex_fixed]. rewrite map_app, IH. cbn [map].
  rewrite lower_upper_digit by (apply N.mod_lt; lia). reflexivity.
Qed.

(* the module consulted for a user-data section: udparsers.<creator><component id in 4 lower-case hex digits> (twice) *)
Theorem ud_module_name cr comp : comp < 65536 ->
  ud_module cr comp = L "udparsers." ++ (map lower_c (map lower_c cr) ++ hex_fixed hexdigL 4 comp)
                       ++ L "." ++ (map lower_c (map lower_c cr) ++ hex_fixed hexdigL 4 comp).
Proof.
  intros Hc. unfold ud_module, ud_name. rewrite map_app. unfold hexU.
  rewrite hex_min_fixed by (try lia; exact Hc). rewrite lower_hex_fixed. reflexivity.
Qed.

(* ... and it receives that section's sub-type, version and exact payload *)
Theorem ud_parser_arguments e c h cr d f :
  (is_bmc cr && (h_comp h =? 8192)) = false -> allow_plugins c = true -> ud_import e (ud_module cr (h_comp h)) = IFound f ->
  render_ud e c h cr d =
    merge_value (base_fields e h cr (L "Created by"))
      match f (h_sub h) (h_ver h) d with
      | PRetJ j => UVJson j
      | PRetT t => UVText t
      | PRetEmpty => UVText []
      | PNone => UVJson (JObj ((L "Error", js (none_error cr (h_comp h) (h_sub h) (h_ver h))) :: data_obj d))
      | PNonStr => UVReject
      | PRaise msg | PRaiseImport msg => UVJson (JObj ((L "Error", js (raise_error cr (h_comp h) (h_sub h) (h_ver h) msg)) :: data_obj d))
      end.
Proof. intros Hb Hp Hi. unfold render_ud, ud_value_of. rewrite Hb, Hp. unfold custom_value. rewrite Hi. reflexivity. Qed.

(* the SRC parser is srcparsers.<creator>src and receives the reference code and hex words 2..9, missing words as 00000000 *)
Theorem src_parser_arguments e cr ascii ws f : src_import e (src_module cr) = IFound f ->
  src_details e cr ascii ws =
    match f ascii (ws ++ repeat (L "00000000") (8 - length ws)) with
    | PRetJ JNull | PRetEmpty | PNone | PRaise _ | PRaiseImport _ => Some []
    | PRetJ j => Some [(L "SRC Details", j)]
    | PRetT t => src_details_text t
    | PNonStr => None
    end.
Proof. intros Hi. unfold src_details, pad8. rewrite Hi. destruct (f ascii _) as [[]| | | | | |]; reflexivity. Qed.
Theorem src_module_name cr : src_module cr = L "srcparsers." ++ (map lower_c cr ++ L "src") ++ L "." ++ (map lower_c cr ++ L "src").
Proof. reflexivity. Qed.

(* BMC SRCs: the component named by characters 4..5 of the reference code, or the hostboot parser for BC codes *)
Theorem osrc_routing lookup refcode words :
  osrc lookup refcode words =
    match lookup (if text_eqb (firstn 2 refcode) (L "BC") then L "srcparsers.bsrc.bsrc"
                  else L "srcparsers.o" ++ map lower_c (firstn 2 (skipn 4 refcode)) ++ L "00.o" ++ map lower_c (firstn 2 (skipn 4 refcode)) ++ L "00") with
    | IFound f => f refcode words
    | INotFound => PRetJ JNull
    | IBroken msg => PRaise msg
    end.
Proof.
  unfold osrc, osrc_target. destruct (text_eqb (firstn 2 refcode) (L "BC")); [reflexivity|].
  cbn [app]. rewrite <- !app_assoc. reflexivity.
Qed.

(* containment: an SRC parser that raises, returns nothing or is missing only loses the SRC details *)
Theorem src_parser_contained e cr ascii ws :
  (match src_import e (src_module cr) with
   | IFound f => match f ascii (pad8 ws) with PNone | PRaise _ | PRaiseImport _ | PRetEmpty => True | _ => False end
   | _ => True
   end) -> src_details e cr ascii ws = Some [].
Proof.
  unfold src_details. destruct (src_import e (src_module cr)) as [|msg|f]; try reflexivity.
  destruct (f ascii (pad8 ws)) as [[]| | | | | |]; intros H; try contradiction; reflexivity.
Qed.

(* with --skip-parser-plugins no parser module matters: two environments that differ only in their parser modules decode alike *)
Theorem disabled_ignores_modules e1 e2 consider data :
  registry e1 = registry e2 -> (forall a b, comp_name e1 a b = comp_name e2 a b) ->
  decode e1 {| allow_plugins := false |} consider data = decode e2 {| allow_plugins := false |} consider data.
Proof. intros Hr H. apply decode_equiv. split; [exact Hr|]. split; [exact H|]. cbn. discriminate. Qed.
