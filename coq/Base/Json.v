(* JSON documents with OrderedDict semantics for objects, and the ASCII renderer json.dumps(separators=(',', ':')) used to
   hand documents to the harness (Python's json.loads reads it back; so does Model/JsonLoads.v, proved). *)
From Coq Require Import List NArith ZArith Bool.
From PV Require Import Base.Bytes Base.Lit.
Import ListNotations.
Open Scope N_scope.

Inductive json :=
| JNull
| JBool (b : bool)
| JNum (z : Z)
| JFloat (raw : text)               (* a number token that is not a plain integer, kept verbatim *)
| JStr (s : text)
| JArr (l : list json)
| JObj (l : list (text * json)).

(* OrderedDict: d[k] = v  replaces in place, otherwise appends *)
Fixpoint obj_set (l : list (text * json)) (k : text) (v : json) : list (text * json) :=
  match l with
  | [] => [(k, v)]
  | (k', v') :: t => if text_eqb k k' then (k, v) :: t else (k', v') :: obj_set t k v
  end.
Definition obj_update (l upd : list (text * json)) : list (text * json) :=
  fold_left (fun acc kv => obj_set acc (fst kv) (snd kv)) upd l.
Fixpoint obj_get (l : list (text * json)) (k : text) : option json :=
  match l with
  | [] => None
  | (k', v) :: t => if text_eqb k k' then Some v else obj_get t k
  end.
Definition obj_has (l : list (text * json)) (k : text) : bool :=
  match obj_get l k with Some _ => true | None => false end.

(* ---- rendering ---- *)
Definition u4 (v : N) : text := L "\u" ++ hex_fixed hexdigL 4 v.
(* json.dumps with ensure_ascii (ESCAPE_ASCII): the short escapes, \uXXXX for the other characters outside ' '..'~'
   (a surrogate pair above the BMP) *)
Definition short_esc (c : N) : option N :=
  if c =? 34 then Some 34 else if c =? 92 then Some 92 else if c =? 8 then Some 98 else if c =? 12 then Some 102
  else if c =? 10 then Some 110 else if c =? 13 then Some 114 else if c =? 9 then Some 116 else None.
Definition esc_char (c : N) : text :=
  match short_esc c with
  | Some l => [92; l]
  | None =>
      if (c <? 32) || (127 <=? c) then
        (if c <? 65536 then u4 c
         else let v := c - 65536 in u4 (55296 + v / 1024) ++ u4 (56320 + v mod 1024))
      else [c]
  end.
Definition render_str (s : text) : text := [34] ++ flat_map esc_char s ++ [34].

Definition render_z (z : Z) : text :=
  match z with
  | Z0 => [48]
  | Zpos p => dec (Npos p)
  | Zneg p => 45 :: dec (Npos p)
  end.

Fixpoint render (j : json) : text :=
  match j with
  | JNull => L "null"
  | JBool true => L "true"
  | JBool false => L "false"
  | JNum z => render_z z
  | JFloat raw => raw
  | JStr s => render_str s
  | JArr l => [91] ++ join [44] (map render l) ++ [93]
  | JObj l => [123] ++ join [44] (map (fun kv => render_str (fst kv) ++ [58] ++ render (snd kv)) l) ++ [125]
  end.

Definition jstrs (l : list text) : json := JArr (map JStr l).
