(* Python's  format % tuple_of_non_negative_ints  (CPython 3 unicodeobject.c: unicode_format), for the
   conversions  d i u x X o c s r a %  with flags  - + space # 0, width, precision (literal or '*') and
   one ignored length modifier h/l/L.
     FOk t         the formatted text
     FError        Python raises (too few / too many arguments, lone or trailing '%', '%(' mapping key,
                   unknown conversion character, %c above 0x10FFFF): callers fall back to the raw format
     FUnsupported  outside this model: float conversions e E f F g G, widths/precisions above [max_field]
   The format is scanned left to right by a small state machine, one character per step (structural). *)
From Coq Require Import List NArith Bool Arith.
From PV Require Import Base.Bytes Base.Lit.
Import ListNotations.
Open Scope N_scope.

Inductive fmt_res := FOk (t : text) | FError | FUnsupported.

Definition fapp (pre : text) (r : fmt_res) : fmt_res :=
  match r with FOk t => FOk (pre ++ t) | other => other end.

Record cspec := mkspec {
  f_left : bool; f_sign : bool; f_blank : bool; f_alt : bool; f_zero : bool;
  f_width : option N; f_prec : option N }.
Definition spec0 : cspec := mkspec false false false false false None None.

Inductive pstate :=
| SLit                         (* copying literal text *)
| SPct                         (* just after '%': a second '%' is a literal per cent sign *)
| SFlags (s : cspec)           (* reading flags *)
| SWidth (s : cspec)           (* reading width digits *)
| SAfterWidth (s : cspec)      (* after a '*' width *)
| SDot (s : cspec)             (* just after '.' *)
| SPrec (s : cspec)            (* reading precision digits *)
| SAfterPrec (s : cspec)       (* after a '*' precision *)
| SConv (s : cspec).           (* after the length modifier: a conversion character must follow *)

Definition max_field : N := 10000.

Definition c_pct : N := 37.
Definition is_digit (c : N) : bool := (48 <=? c) && (c <=? 57).
Definition is_flag (c : N) : bool := (c =? 45) || (c =? 43) || (c =? 32) || (c =? 35) || (c =? 48).
Definition is_lenmod (c : N) : bool := (c =? 104) || (c =? 108) || (c =? 76).

Definition set_flag (s : cspec) (c : N) : cspec :=
  if c =? 45 then mkspec true (f_sign s) (f_blank s) (f_alt s) (f_zero s) (f_width s) (f_prec s)
  else if c =? 43 then mkspec (f_left s) true (f_blank s) (f_alt s) (f_zero s) (f_width s) (f_prec s)
  else if c =? 32 then mkspec (f_left s) (f_sign s) true (f_alt s) (f_zero s) (f_width s) (f_prec s)
  else if c =? 35 then mkspec (f_left s) (f_sign s) (f_blank s) true (f_zero s) (f_width s) (f_prec s)
  else mkspec (f_left s) (f_sign s) (f_blank s) (f_alt s) true (f_width s) (f_prec s).
Definition set_width (s : cspec) (w : N) : cspec :=
  mkspec (f_left s) (f_sign s) (f_blank s) (f_alt s) (f_zero s) (Some w) (f_prec s).
Definition set_prec (s : cspec) (p : N) : cspec :=
  mkspec (f_left s) (f_sign s) (f_blank s) (f_alt s) (f_zero s) (f_width s) (Some p).
Definition push_digit (o : option N) (c : N) : N :=
  match o with Some w => w * 10 + (c - 48) | None => c - 48 end.

(* digits of v in base b (at least one digit) *)
Fixpoint radix_fuel (fuel : nat) (b : N) (dig : N -> N) (v : N) (acc : text) : text :=
  match fuel with
  | O => acc
  | S f => let acc' := dig (v mod b) :: acc in
           if v <? b then acc' else radix_fuel f b dig (v / b) acc'
  end.
Definition radix (b : N) (dig : N -> N) (v : N) : text := radix_fuel (S (N.to_nat (N.size v))) b dig v [].

Definition spaces (n : nat) : text := repeat 32 n.
Definition zeros (n : nat) : text := repeat 48 n.
Definition width_nat (s : cspec) : nat := match f_width s with Some w => N.to_nat w | None => O end.

(* integer conversions: sign, prefix, zero/space padding (unicode_format_arg_output) *)
Definition pad_num (s : cspec) (prefix digits : text) : text :=
  let sign := if f_sign s then [43] else if f_blank s then [32] else [] in
  let pad := (width_nat s - (length sign + length prefix + length digits))%nat in
  if f_left s then sign ++ prefix ++ digits ++ spaces pad
  else if f_zero s then sign ++ prefix ++ zeros pad ++ digits
  else spaces pad ++ sign ++ prefix ++ digits.

(* %c %s %r %a: space padding only; sign, '#', '0' have no effect *)
Definition pad_str (s : cspec) (str : text) : text :=
  let pad := (width_nat s - length str)%nat in
  if f_left s then str ++ spaces pad else spaces pad ++ str.

(* precision on an integer: minimum number of digits *)
Definition with_prec (s : cspec) (digits : text) : text :=
  match f_prec s with
  | Some p => zeros (N.to_nat p - length digits) ++ digits
  | None => digits
  end.

Definition too_wide (s : cspec) : bool :=
  match f_width s with Some w => max_field <? w | None => false end
  || match f_prec s with Some p => max_field <? p | None => false end.

Definition is_float_conv (c : N) : bool :=
  (c =? 101) || (c =? 69) || (c =? 102) || (c =? 70) || (c =? 103) || (c =? 71).

(* text produced for one argument by conversion c, None = Python raises *)
Definition conv_text (s : cspec) (c v : N) : option text :=
  if (c =? 100) || (c =? 105) || (c =? 117) then Some (pad_num s [] (with_prec s (dec v)))
  else if c =? 120 then Some (pad_num s (if f_alt s then L "0x" else []) (with_prec s (hexL 1 v)))
  else if c =? 88 then Some (pad_num s (if f_alt s then L "0X" else []) (with_prec s (hexU 1 v)))
  else if c =? 111 then Some (pad_num s (if f_alt s then L "0o" else []) (with_prec s (radix 8 hexdigL v)))
  else if c =? 99 then (if v <=? 1114111 then Some (pad_str s [v]) else None)
  else if (c =? 115) || (c =? 114) || (c =? 97) then
    Some (pad_str s (match f_prec s with Some p => firstn (N.to_nat p) (dec v) | None => dec v end))
  else None.

(* a conversion character c with complete spec s; k continues with the rest of the format *)
Definition conversion (k : pstate -> list N -> fmt_res) (s : cspec) (c : N) (args : list N) : fmt_res :=
  if is_float_conv c then FUnsupported
  else if too_wide s then FUnsupported
  else match args with
       | [] => FError
       | v :: rest => match conv_text s c v with
                      | Some t => fapp t (k SLit rest)
                      | None => FError
                      end
       end.

Definition after_prec (k : pstate -> list N -> fmt_res) (s : cspec) (c : N) (args : list N) : fmt_res :=
  if is_lenmod c then k (SConv s) args else conversion k s c args.

Definition after_width (k : pstate -> list N -> fmt_res) (s : cspec) (c : N) (args : list N) : fmt_res :=
  if c =? 46 then k (SDot s) args else after_prec k s c args.

Definition star : N := 42.

(* a character in flag position *)
Definition flags_step (k : pstate -> list N -> fmt_res) (s : cspec) (c : N) (args : list N) : fmt_res :=
  if c =? 40 then FError                                          (* %( : format requires a mapping *)
  else if is_flag c then k (SFlags (set_flag s c)) args
  else if c =? star then
    match args with [] => FError | w :: rest => k (SAfterWidth (set_width s w)) rest end
  else if is_digit c then k (SWidth (set_width s (c - 48))) args
  else after_width k s c args.

(* one character c in state st; k = the scanner on the rest of the format.  A '%' anywhere but directly
   after the opening '%' is an unknown conversion character (CPython 3.12 raises). *)
Definition dispatch (k : pstate -> list N -> fmt_res) (st : pstate) (c : N) (args : list N) : fmt_res :=
  match st with
  | SLit => if c =? c_pct then k SPct args else fapp [c] (k SLit args)
  | SPct => if c =? c_pct then fapp [c_pct] (k SLit args) else flags_step k spec0 c args
  | SFlags s => flags_step k s c args
  | SWidth s =>
      if is_digit c then
        (if max_field <? push_digit (f_width s) c then FUnsupported
         else k (SWidth (set_width s (push_digit (f_width s) c))) args)
      else after_width k s c args
  | SAfterWidth s => after_width k s c args
  | SDot s =>
      if c =? star then
        match args with [] => FError | p :: rest => k (SAfterPrec (set_prec s p)) rest end
      else if is_digit c then k (SPrec (set_prec s (c - 48))) args
      else after_prec k (set_prec s 0) c args
  | SPrec s =>
      if is_digit c then
        (if max_field <? push_digit (f_prec s) c then FUnsupported
         else k (SPrec (set_prec s (push_digit (f_prec s) c))) args)
      else after_prec k s c args
  | SAfterPrec s => after_prec k s c args
  | SConv s => conversion k s c args
  end.

Fixpoint scan (fmt : text) (st : pstate) (args : list N) : fmt_res :=
  match fmt with
  | [] => match st with
          | SLit => match args with [] => FOk [] | _ => FError end   (* not all arguments converted *)
          | _ => FError                                              (* incomplete format *)
          end
  | c :: t => dispatch (scan t) st c args
  end.

Definition pyfmt (fmt : text) (args : list N) : fmt_res := scan fmt SLit args.
