(* Bytes, big-endian integers, hex digits.  Definitions only (proofs live in Proofs/). *)
From Coq Require Import List NArith Bool Arith.
Import ListNotations.
Open Scope N_scope.

Definition bytes := list N.          (* every element < 256 where a theorem needs it *)
Definition text := list N.           (* Unicode code points *)

Definition is_byte (b : N) : bool := b <? 256.
Definition all_bytes (l : bytes) : bool := forallb is_byte l.

(* big-endian value of a byte list, with accumulator *)
Fixpoint be_val (l : bytes) (acc : N) : N :=
  match l with [] => acc | b :: t => be_val t (acc * 256 + b) end.

(* n-byte big-endian encoding of v (v mod 256^n) *)
Fixpoint be_bytes (n : nat) (v : N) : bytes :=
  match n with O => [] | S k => be_bytes k (v / 256) ++ [v mod 256] end.

(* ---- hex digits ---- *)
Definition hexdigU (n : N) : N := if n <? 10 then 48 + n else 55 + n.   (* 0-9A-F *)
Definition hexdigL (n : N) : N := if n <? 10 then 48 + n else 87 + n.   (* 0-9a-f *)
Definition is_hex (c : N) : bool :=
  ((48 <=? c) && (c <=? 57)) || ((65 <=? c) && (c <=? 70)) || ((97 <=? c) && (c <=? 102)).
Definition hexval (c : N) : N :=
  if c <=? 57 then c - 48 else if c <=? 70 then c - 55 else c - 87.

(* exactly n hex digits of v (the low n digits), most significant first *)
Fixpoint hex_fixed (dig : N -> N) (n : nat) (v : N) : text :=
  match n with O => [] | S k => hex_fixed dig k (v / 16) ++ [dig (v mod 16)] end.

(* number of hex digits needed for v (at least 1); fuel = bit size *)
Fixpoint hex_digits_fuel (fuel : nat) (v : N) : nat :=
  match fuel with
  | O => 1%nat
  | S f => if v <? 16 then 1%nat else S (hex_digits_fuel f (v / 16))
  end.
Definition hex_digits (v : N) : nat := hex_digits_fuel (N.to_nat (N.size v)) v.

(* Python "%0<w>X" % v  /  "{:0<w>X}".format(v): at least w digits, never truncating *)
Definition hex_min (dig : N -> N) (w : nat) (v : N) : text :=
  hex_fixed dig (Nat.max w (hex_digits v)) v.
Definition hexU (w : nat) (v : N) : text := hex_min hexdigU w v.
Definition hexL (w : nat) (v : N) : text := hex_min hexdigL w v.

(* bytes.hex() : two lower-case digits per byte *)
Definition bytes_hex (l : bytes) : text := flat_map (fun b => hex_fixed hexdigL 2 b) l.

(* decimal str(int) *)
Fixpoint dec_fuel (fuel : nat) (v : N) (acc : text) : text :=
  match fuel with
  | O => acc
  | S f => let acc' := (48 + v mod 10) :: acc in
           if v <? 10 then acc' else dec_fuel f (v / 10) acc'
  end.
Definition dec (v : N) : text := dec_fuel (S (N.to_nat (N.size v))) v [].

(* ASCII helpers *)
Definition upper_c (c : N) : N := if (97 <=? c) && (c <=? 122) then c - 32 else c.
Definition lower_c (c : N) : N := if (65 <=? c) && (c <=? 90) then c + 32 else c.

Fixpoint text_eqb (a b : text) : bool :=
  match a, b with
  | [], [] => true
  | x :: a', y :: b' => (x =? y) && text_eqb a' b'
  | _, _ => false
  end.

Fixpoint prefixb (p s : text) : bool :=
  match p, s with
  | [], _ => true
  | x :: p', y :: s' => (x =? y) && prefixb p' s'
  | _ :: _, [] => false
  end.

(* Python "sub in s" *)
Fixpoint substrb (sub s : text) : bool :=
  prefixb sub s || match s with [] => false | _ :: t => substrb sub t end.

(* s.find(sub): index of first occurrence *)
Fixpoint find_from (sub s : text) (i : nat) : option nat :=
  if prefixb sub s then Some i
  else match s with [] => None | _ :: t => find_from sub t (S i) end.
Definition find (sub s : text) : option nat := find_from sub s 0.

Definition ljust (w : nat) (fill : N) (s : text) : text :=
  s ++ repeat fill (w - length s).

(* strip a set of characters on both sides / on the right *)
Fixpoint lstrip_by (p : N -> bool) (s : text) : text :=
  match s with c :: t => if p c then lstrip_by p t else s | [] => [] end.
(* linear-time reversal (List.rev is quadratic, also after extraction); equal to rev: BytesFacts.frev_rev *)
Definition frev {A} (l : list A) : list A := rev_append l [].
Definition rstrip_by (p : N -> bool) (s : text) : text := frev (lstrip_by p (frev s)).
Definition strip_by (p : N -> bool) (s : text) : text := rstrip_by p (lstrip_by p s).

Definition is_nul (c : N) : bool := c =? 0.
(* Python str.isspace() for the code points str.strip() removes *)
Definition is_pyspace (c : N) : bool :=
  ((9 <=? c) && (c <=? 13)) || ((28 <=? c) && (c <=? 32)) || (c =? 133) || (c =? 160)
  || (c =? 5760) || ((8192 <=? c) && (c <=? 8202)) || (c =? 8232) || (c =? 8233)
  || (c =? 8239) || (c =? 8287) || (c =? 12288).

Definition strip_nul := strip_by is_nul.
Definition rstrip_nul := rstrip_by is_nul.
Definition strip_ws := strip_by is_pyspace.

(* string literal helper: ASCII text from a list written with character codes is awkward, so
   the generated/handwritten files use this notation-free constructor from Coq strings is avoided;
   we write code points directly or via [ascii_of] tables in Gen. *)

(* split on a separator character, Python str.split(sep) semantics (always >= 1 piece) *)
Fixpoint split_on (sep : N) (s : text) (cur : text) : list text :=
  match s with
  | [] => [rev cur]
  | c :: t => if c =? sep then rev cur :: split_on sep t [] else split_on sep t (c :: cur)
  end.
Definition split (sep : N) (s : text) : list text := split_on sep s [].

Fixpoint join (sep : text) (l : list text) : text :=
  match l with
  | [] => []
  | [x] => x
  | x :: t => x ++ sep ++ join sep t
  end.
