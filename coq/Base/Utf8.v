(* Strict UTF-8, as bytes.decode() / str.encode('utf-8') in CPython: overlong forms, surrogates and
   values above U+10FFFF are rejected. *)
From Coq Require Import List NArith Bool.
From PV Require Import Base.Bytes.
Import ListNotations.
Open Scope N_scope.

Definition is_cont (b : N) : bool := (128 <=? b) && (b <=? 191).
Definition inr (lo hi b : N) : bool := (lo <=? b) && (b <=? hi).

(* structural on the list: each case peels 1..4 bytes *)
Fixpoint utf8_decode (l : bytes) : option text :=
  match l with
  | [] => Some []
  | b0 :: t =>
      if b0 <? 128 then option_map (cons b0) (utf8_decode t)
      else if inr 194 223 b0 then
        match t with
        | b1 :: t1 => if is_cont b1 then option_map (cons ((b0 - 192) * 64 + (b1 - 128))) (utf8_decode t1) else None
        | _ => None
        end
      else if inr 224 239 b0 then
        match t with
        | b1 :: b2 :: t2 =>
            let ok1 := if b0 =? 224 then inr 160 191 b1 else if b0 =? 237 then inr 128 159 b1 else is_cont b1 in
            if ok1 && is_cont b2 then
              option_map (cons ((b0 - 224) * 4096 + (b1 - 128) * 64 + (b2 - 128))) (utf8_decode t2)
            else None
        | _ => None
        end
      else if inr 240 244 b0 then
        match t with
        | b1 :: b2 :: b3 :: t3 =>
            let ok1 := if b0 =? 240 then inr 144 191 b1 else if b0 =? 244 then inr 128 143 b1 else is_cont b1 in
            if ok1 && is_cont b2 && is_cont b3 then
              option_map (cons ((b0 - 240) * 262144 + (b1 - 128) * 4096 + (b2 - 128) * 64 + (b3 - 128))) (utf8_decode t3)
            else None
        | _ => None
        end
      else None
  end.

(* None for surrogates and values above U+10FFFF (str.encode raises) *)
Definition utf8_encode_cp (c : N) : option bytes :=
  if c <? 128 then Some [c]
  else if c <? 2048 then Some [192 + c / 64; 128 + c mod 64]
  else if c <? 65536 then
    if inr 55296 57343 c then None
    else Some [224 + c / 4096; 128 + (c / 64) mod 64; 128 + c mod 64]
  else if c <? 1114112 then Some [240 + c / 262144; 128 + (c / 4096) mod 64; 128 + (c / 64) mod 64; 128 + c mod 64]
  else None.

Fixpoint utf8_encode (s : text) : option bytes :=
  match s with
  | [] => Some []
  | c :: t => match utf8_encode_cp c, utf8_encode t with
              | Some a, Some b => Some (a ++ b)
              | _, _ => None
              end
  end.
