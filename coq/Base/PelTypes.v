(* The structure of a PEL: what the stored fields are.  Shared by the specification (encode, doc_of)
   and the model (parse, render).  Text fields hold the stored bytes of the field (padding included). *)
From Coq Require Import List NArith Bool.
From PV Require Import Base.Bytes.
Import ListNotations.
Open Scope N_scope.

Record shdr := { h_ver : N; h_sub : N; h_comp : N }.                    (* version, sub-type, component id *)

Record ph_t := {
  ph_hdr : shdr; ph_len : N;
  ph_create : bytes; ph_commit : bytes;                                    (* 8 BCD bytes each *)
  ph_creator : N; ph_res0 : N; ph_res1 : N; ph_count : N;
  ph_obmc : N; ph_cver : N; ph_plid : N; ph_eid : N }.

Record uh_t := {
  uh_hdr : shdr; uh_len : N;
  uh_subsys : N; uh_scope : N; uh_sev : N; uh_etype : N; uh_res4 : N;
  uh_domain : N; uh_vector : N; uh_flags : N; uh_states : N }.

Record fru_t := { f_size : N; f_flags : N; f_pn : bytes; f_ccin : bytes; f_sn : bytes }.   (* absent fields = [] *)
Record pce_t := { p_size : N; p_flags : N; p_mtm : bytes; p_sn : bytes; p_name : bytes }.
Record mru_t := { m_size : N; m_flags : N; m_res : N; m_list : list (N * N) }.             (* (priority, id) *)

(* substructures in stream order; the decoder keeps the last of each kind *)
Inductive sub_t := SubFru (f : fru_t) | SubPce (p : pce_t) | SubMru (m : mru_t).

Record callout_t := {
  c_size : N; c_flags : N; c_prio : N; c_loc : bytes; c_subs : list sub_t }.

Record callouts_t := { cs_id : N; cs_flags : N; cs_wlen : N; cs_list : list callout_t }.

Record src_t := {
  s_version : N; s_flags : N; s_res1 : N; s_wcount : N; s_res2 : N; s_size : N;
  s_words : list N;                                                        (* eight 32-bit words: hex words 2..9 *)
  s_ascii : bytes;                                                         (* 32 bytes *)
  s_callouts : option callouts_t }.

Record eh_t := {
  e_mtm : bytes; e_sn : bytes; e_fw : bytes; e_subfw : bytes; e_res4 : N;
  e_reftime : bytes; e_r1 : N; e_r2 : N; e_r3 : N; e_symlen : N; e_sym : bytes }.

Record mt_t := { t_mtm : bytes; t_sn : bytes }.

Record lp_t := { l_part : N; l_namelen : N; l_count : N; l_logid : N; l_name : bytes; l_targets : list N; l_pad : option N }.

Inductive body_t :=
| BSrc (s : src_t)
| BEh (e : eh_t)
| BMt (t : mt_t)
| BLp (l : lp_t)
| BUd (payload : bytes)
| BEd (creator res1 res2 : N) (payload : bytes)
| BOther (payload : bytes).

Record section_t := { sec_id : N; sec_len : N; sec_hdr : shdr; sec_body : body_t }.

Record pel_t := { p_ph : ph_t; p_uh : uh_t; p_secs : list section_t }.

(* one entry of the message registry (pel_registry / message_registry.json), as far as the decoder reads it *)
Record reg_word := { rw_num : text; rw_desc : option text; rw_source : text }.     (* Words6To9: "6".."9" -> Description?, AdditionalDataPropSource *)
Record reg_pel := {
  r_reason : option text;            (* SRC.ReasonCode, e.g. "0x2030" *)
  r_type : option text;              (* SRC.Type, default "BD" *)
  r_message : text;                  (* Documentation.Message, with %1..%9 *)
  r_args : option (list text);       (* Documentation.MessageArgSources, e.g. ["SRCWord6"; "SRCWord7"] *)
  r_words : list reg_word }.


(* section ids *)
Definition id_of (a b : N) : N := a * 256 + b.
