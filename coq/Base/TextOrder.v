(* Python's str ordering (code-point lexicographic) and list.sort() on names. *)
From Coq Require Import List NArith Bool Arith.
From PV Require Import Base.Bytes.
Import ListNotations.
Open Scope N_scope.

Fixpoint text_ltb (a b : text) : bool :=
  match a, b with
  | [], [] => false
  | [], _ :: _ => true
  | _ :: _, [] => false
  | x :: a', y :: b' => if x <? y then true else if y <? x then false else text_ltb a' b'
  end.
Definition text_leb (a b : text) : bool := negb (text_ltb b a).

Fixpoint insert (x : text) (l : list text) : list text :=
  match l with
  | [] => [x]
  | y :: t => if text_leb x y then x :: l else y :: insert x t
  end.
Definition sort (l : list text) : list text := fold_right insert [] l.
