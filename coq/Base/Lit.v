(* ASCII literals as code-point lists.  Only this file touches Coq's [string]; model files
   write [L "abc"] and never import [String] (whose [length] would shadow [List.length]). *)
From Coq Require Import List NArith.
From Coq Require Strings.String Strings.Ascii.
Import ListNotations.

Declare Scope lit_scope.
Delimit Scope lit_scope with lit.
Bind Scope lit_scope with String.string.
String Notation String.string String.string_of_list_byte String.list_byte_of_string : lit_scope.

Fixpoint L (s : String.string) : list N :=
  match s with
  | String.EmptyString => []
  | String.String c t => Ascii.N_of_ascii c :: L t
  end.
Arguments L s%lit.
