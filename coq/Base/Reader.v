(* The checked DataStream as a reader monad over the remaining bytes. *)
From Coq Require Import List NArith Bool Arith.
From PV Require Import Base.Bytes.
Import ListNotations.
Open Scope N_scope.

Definition reader (A : Type) := bytes -> option (A * bytes).
Definition ret {A} (a : A) : reader A := fun s => Some (a, s).
Definition fail {A} : reader A := fun _ => None.
Definition bind {A B} (r : reader A) (f : A -> reader B) : reader B :=
  fun s => match r s with Some (a, s') => f a s' | None => None end.
Notation "x <- r ;; k" := (bind r (fun x => k)) (at level 61, r at next level, right associativity).
Notation "r ;;; k" := (bind r (fun _ => k)) (at level 61, right associativity).

(* get_mem(n): the range check rejects n = 0 and n > remaining *)
Definition get_mem (n : nat) : reader bytes :=
  fun s => match n with
           | O => None
           | _ => if Nat.leb n (length s) then Some (firstn n s, skipn n s) else None
           end.
Definition get_int (n : nat) : reader N := b <- get_mem n ;; ret (be_val b 0).
Definition get_memN (n : N) : reader bytes := get_mem (N.to_nat n).

(* the one unchecked look-ahead (src.py get_value(stream.data, stream.index, 2)): short at end of data *)
Definition peek2 : reader N := fun s => Some (be_val (firstn 2 s) 0, s).

(* read exactly n items with r *)
Fixpoint read_n {A} (n : nat) (r : reader A) : reader (list A) :=
  match n with
  | O => ret []
  | S k => a <- r ;; t <- read_n k r ;; ret (a :: t)
  end.
