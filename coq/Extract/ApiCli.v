(* CLI commands of the extracted binary: directory modes over (name, content) pairs. *)
From Coq Require Import List NArith ZArith Bool Arith.
From PV Require Import Base.Bytes Base.Lit Base.Json Base.Utf8 Base.PelTypes Base.TextOrder
                       Model.Parse Model.Render Model.Pel Model.Env Model.Select Model.Cli Model.CliPel Model.Clean Extract.ApiPel.
Import ListNotations.
Open Scope N_scope.

Definition targ (b : bytes) : text := match utf8_decode b with Some t => t | None => [] end.

Fixpoint pairs (l : list bytes) : list (text * bytes)%type :=
  match l with
  | n :: c :: t => (targ n, c) :: pairs t
  | _ => []
  end.

Definition lookup_content (files : list (text * bytes)%type) (n : text) : bytes :=
  match List.find (fun p => text_eqb (fst p) n) files with Some p => snd p | None => [] end.

Definition render_stdout (o : stdout_t) : json :=
  match o with
  | OutCount n => JObj [(L "count", JNum (Z.of_nat n))]
  | OutList l => JObj [(L "list", JObj l)]
  | OutAll l => JObj [(L "all", JArr l)]
  | OutHex l => JObj [(L "hex", JArr (map (fun b => JStr (bytes_hex b)) l))]
  | OutText l => JObj [(L "text", jstrs l)]
  end.

(* args: mode, flags (bit0 rev, bit1 hex, bit2 plugins), selection byte, severity digits, extension, extra text, then name/content pairs *)
Definition run_cli (cmd : text) (args : list bytes) : option text :=
  if is_cmd cmd (L "cli") then
    let mode := be_val (arg 0 args) 0 in
    let fl := be_val (arg 1 args) 0 in
    let s := sel_of (arg 2 args) (arg 3 args) in
    let ext := match targ (arg 4 args) with [] => None | t => Some t end in
    let extra := targ (arg 5 args) in
    let files := pairs (skipn 6 args) in
    let names := map fst files in
    let content := lookup_content files in
    let c := {| c_ext := ext; c_rev := N.testbit fl 0; c_hex := N.testbit fl 1 |} in
    let pc := {| allow_plugins := N.testbit fl 2 |} in
    let s := if (mode =? 3) || (mode =? 4) || (mode =? 5) || (mode =? 6) || (mode =? 7) then
               {| every := every s; term := term s; svc := svc s; nsvc := nsvc s; hid := hid s; only := only s; sevs := sevs s; lookup := true |}
             else s in
    let d := decoders_of env0 pc s in
    let out :=
      if mode =? 0 then Some (mode_count d c content names)
      else if mode =? 1 then Some (mode_list d c content names)
      else if mode =? 2 then Some (mode_all d c content names)
      else if mode =? 3 then
        match process_id extra with
        | Some pid => Some (mode_selected_list d c (plid_names d c pid content names) content)
        | None => None
        end
      else if mode =? 6 then mode_id d (c_hex c) extra content names
      else if mode =? 7 then Some (mode_bmcid d (decode_obmc env0) (c_hex c) extra content names)
      else if mode =? 4 then Some (mode_selected_list d c (src_names d c (Some extra) None content names) content)
      else Some (mode_selected_list d c (src_names d c None (Some extra) content names) content) in
    Some (render (match out with Some o => render_stdout o | None => JObj [(L "exit", JStr (L "Invalid length of ID is provided!"))] end))
  else if is_cmd cmd (L "cli_o") then
    (* count / list / all on a directory some of whose entries cannot be opened.
       args: mode (0 count, 1 list, 2 all), flags, selection byte, severity digits, extension, then name / readable-flag / content triples *)
    let mode := be_val (arg 0 args) 0 in
    let fl := be_val (arg 1 args) 0 in
    let s := sel_of (arg 2 args) (arg 3 args) in
    let ext := match targ (arg 4 args) with [] => None | t => Some t end in
    let fix triples (l : list bytes) : list (text * option bytes) :=
      match l with n :: r :: c :: t => (targ n, if be_val r 0 =? 0 then None else Some c) :: triples t | _ => [] end in
    let files := triples (skipn 5 args) in
    let oc n := match List.find (fun p => text_eqb (fst p) n) files with Some p => snd p | None => None end in
    let c := {| c_ext := ext; c_rev := N.testbit fl 0; c_hex := N.testbit fl 1 |} in
    let d := decoders_of env0 {| allow_plugins := N.testbit fl 2 |} s in
    let names := map fst files in
    Some (render (render_stdout (if mode =? 0 then mode_count_o d c oc names
                                 else if mode =? 1 then mode_list_o d c oc names
                                 else mode_all_o d c oc names)))
  else if is_cmd cmd (L "clean_trace") then
    (* args: path (0 json, 1 file), decode outcome (0 ok, 1 filtered, 2 reject), clean flag, fault bits (OpenOut Write Close Print Flush Remove) *)
    let d := let v := be_val (arg 1 args) 0 in if v =? 0 then DOk else if v =? 1 then DFiltered else DReject in
    let cl := negb (be_val (arg 2 args) 0 =? 0) in
    let fb := be_val (arg 3 args) 0 in
    let idx (st : step) : N := match st with OpenOut => 0 | Write => 1 | Close => 2 | Print => 3 | Flush => 4 | RemoveIn => 5 end in
    let f := fun st => N.testbit fb (idx st) in
    let json := be_val (arg 0 args) 0 =? 0 in
    let tr := if json then json_trace f d cl else file_trace f d cl in
    let name (st : step) := match st with OpenOut => L "open" | Write => L "write" | Close => L "close" | Print => L "print" | Flush => L "flush" | RemoveIn => L "remove" end in
    Some (render (JObj [(L "trace", jstrs (map name tr));
                        (L "removed", JBool (removed_in f tr));
                        (L "complete", JBool (if json then json_complete f tr else file_complete f tr))]))
  else if is_cmd cmd (L "cli_effects") then
    (* args: action (0 delete, 1 delete-all, 2 json, 3 other), flags (bit0 clean, bit2 plugins), selection byte, severities,
       extension, id, then name / regular-flag / content triples in os.walk order *)
    let act := be_val (arg 0 args) 0 in
    let fl := be_val (arg 1 args) 0 in
    let s := sel_of (arg 2 args) (arg 3 args) in
    let ext := match targ (arg 4 args) with [] => None | t => Some t end in
    let idt := targ (arg 5 args) in
    let fix triples (l : list bytes) : list (text * (bool * bytes)) :=
      match l with n :: r :: c :: t => (targ n, (negb (be_val r 0 =? 0), c)) :: triples t | _ => [] end in
    let files := triples (skipn 6 args) in
    let walk := map fst files in
    let get n := match List.find (fun p => text_eqb (fst p) n) files with Some p => snd p | None => (false, []) end in
    let d := decoders_of env0 {| allow_plugins := N.testbit fl 2 |} s in
    let json_ok n := match d_full d (snd (get n)) with Got (eid, _) => Some eid | _ => None end in
    let action := if act =? 0 then ADelete idt else if act =? 1 then ADeleteAll else if act =? 2 then AJson (N.testbit fl 0) else AList in
    Some (render (JArr (map (fun e => match e with Remove n => JArr [JStr (L "remove"); JStr n] | Create n => JArr [JStr (L "create"); JStr n] end)
                            (effects action walk (fun n => fst (get n)) json_ok ext))))
  else None.
