(* Commands for C20 (hardware diagnostics): the model functions ("hw_" names) and the specification-side
   builders ("hw_gen_" names) that turn a choice sequence into an abstract value, its encoding and the rendering
   the property prescribes.  Chip data travels as one encoded argument, decoded here in Gallina:

     text  := count(2) { code point(3) }            opt := 00 | 01 text
     map V := count(2) { text V }
     chip  := opt(type) opt(desc) map(text) map(text map(text)) map(text map(text))
     data  := count(2) { text(id) chip }                                                     *)
From Coq Require Import List NArith ZArith Bool Arith.
From PV Require Import Base.Bytes Base.Lit Base.Json Base.Utf8 Base.Reader Model.Hwdiags Spec.HwdiagsSpec.
Import ListNotations.
Open Scope N_scope.

(* byte readers by pattern matching (the generic [get_mem] recomputes the remaining length at every read) *)
Definition g1 : reader N := fun s => match s with a :: t => Some (a, t) | _ => None end.
Definition g2 : reader N := fun s => match s with a :: b :: t => Some (a * 256 + b, t) | _ => None end.
Definition g3 : reader N := fun s => match s with a :: b :: c :: t => Some ((a * 256 + b) * 256 + c, t) | _ => None end.
Definition r_count : reader nat := n <- g2 ;; ret (N.to_nat n).
Definition r_text : reader text := n <- r_count ;; read_n n g3.
Definition r_opt : reader (option text) :=
  f <- g1 ;; if f =? 0 then ret None else t <- r_text ;; ret (Some t).
Definition r_map {V} (rv : reader V) : reader (list (text * V)) :=
  n <- r_count ;; read_n n (k <- r_text ;; v <- rv ;; ret (k, v)).
Definition r_chip : reader chip :=
  ty <- r_opt ;; de <- r_opt ;; at_ <- r_map r_text ;;
  sg <- r_map (n <- r_text ;; m <- r_map r_text ;; ret {| sg_name := n; sg_bits := m |}) ;;
  rg <- r_map (n <- r_text ;; m <- r_map r_text ;; ret {| rg_name := n; rg_addrs := m |}) ;;
  ret {| c_type := ty; c_desc := de; c_attn := at_; c_sigs := sg; c_regs := rg |}.
Definition cd_arg (b : bytes) : chipdata :=
  match r_map r_chip b with Some (cd, _) => cd | None => [] end.

Definition is_cmd (c : text) (name : text) : bool := text_eqb c name.
Definition text_arg (b : bytes) : text := match utf8_decode b with Some t => t | None => L "<bad utf8>" end.
Definition num_arg (b : bytes) : N := be_val b 0.
Definition arg (n : nat) (args : list bytes) : bytes := nth n args [].

Definition jn (n : N) : json := JNum (Z.of_N n).
Definition ok (j : json) : json := JObj [(L "ok", j)].
Definition raised : json := JStr (L "raise").
Definition res_json (r : hw_result) : json :=
  match r with HwOk j => ok j | HwRaise => raised | HwFuel => JStr (L "fuel") end.
Definition opt_json {A} (f : A -> json) (o : option A) : json :=
  match o with Some a => ok (f a) | None => raised end.

(* ---- choice sequences -> abstract values ---- *)
Definition num4 (i : nat) (b : bytes) : N := be_val (firstn 4 (skipn (4 * i) b)) 0.
Definition sig_of_choice (b : bytes) : asig :=
  {| a_model := num4 0 b mod 2 ^ 32; a_pos := num4 1 b mod 2 ^ 16; a_node := num4 2 b mod 2 ^ 8;
     a_attn := num4 3 b mod 2 ^ 8; a_id := num4 4 b mod 2 ^ 16; a_inst := num4 5 b mod 2 ^ 8;
     a_bit := num4 6 b mod 2 ^ 8 |}.
Definition sigs_of_choice (b : bytes) : list asig := map sig_of_choice (Hexdump.chunk 28 b).

Definition r_areg : reader areg :=
  id <- get_int 3 ;; inst <- get_int 1 ;; sz <- get_int 1 ;; d <- get_memN (1 + sz mod 255) ;;
  ret {| r_id := id; r_inst := inst; r_data := d |}.
Definition r_achip : reader achip :=
  m <- get_int 4 ;; p <- get_int 2 ;; nd <- get_int 1 ;; n <- r_count ;; rs <- read_n n r_areg ;;
  ret {| h_model := m; h_pos := p; h_node := nd; h_regs := rs |}.
Definition regdump_of_choice (b : bytes) : option (list achip) :=
  match (n <- r_count ;; read_n n r_achip) b with Some (l, _) => Some l | None => None end.

Definition reg_addr_okb (cd : chipdata) (model : N) (r : areg) : bool :=
  match cd_regaddr cd model (r_id r) (r_inst r) with
  | Some a => match parse_addr a with Some _ => true | None => false end
  | None => true
  end.
Definition regdump_addrs_okb (cd : chipdata) (l : list achip) : bool :=
  forallb (fun h => forallb (reg_addr_okb cd (h_model h)) (h_regs h)) l.

Definition hexj (b : bytes) : json := JStr (bytes_hex b).
Definition sig_abs (s : asig) : json :=
  JArr (map jn [a_model s; a_pos s; a_node s; a_attn s; a_id s; a_inst s; a_bit s]).

Definition is_hw (cmd : text) : bool :=
  match cmd with 104 :: 119 :: 95 :: _ => true | _ => false end.       (* "hw_": the chip data is decoded for these commands only *)

Definition run_hw (cmd : text) (args : list bytes) : option text :=
  if negb (is_hw cmd) then None else
  let cd := cd_arg (arg 0 args) in
  (* ---- model ---- *)
  if is_cmd cmd (L "hw_cd") then
    Some (render (JArr (map (fun kc => JArr [JStr (fst kc); jn (N.of_nat (length (c_sigs (snd kc))));
                                              jn (N.of_nat (length (c_regs (snd kc))))]) cd)))
  else if is_cmd cmd (L "hw_query") then
    Some (render (opt_json JBool (query_model_ec cd (text_arg (arg 1 args)))))
  else if is_cmd cmd (L "hw_attn") then
    Some (render (opt_json JStr (get_attn_desc cd (text_arg (arg 1 args)) (num_arg (arg 2 args)))))
  else if is_cmd cmd (L "hw_chip") then
    Some (render (opt_json JStr (get_chip_desc cd (text_arg (arg 1 args)) (num_arg (arg 2 args)) (num_arg (arg 3 args)))))
  else if is_cmd cmd (L "hw_sigdesc") then
    Some (render (opt_json JStr (get_sig_desc cd (text_arg (arg 1 args)) (text_arg (arg 2 args))
                                              (num_arg (arg 3 args)) (num_arg (arg 4 args)))))
  else if is_cmd cmd (L "hw_reg") then
    Some (render (opt_json (fun na => JArr [JStr (fst na); JStr (snd na)])
                           (get_reg_data cd (text_arg (arg 1 args)) (text_arg (arg 2 args)) (num_arg (arg 3 args)))))
  else if is_cmd cmd (L "hw_sig") then
    Some (render (opt_json JObj (get_signature cd (text_arg (arg 1 args)) (text_arg (arg 2 args)) (text_arg (arg 3 args)))))
  else if is_cmd cmd (L "hw_ud") then
    Some (render (res_json (oe500_ud cd (num_arg (arg 1 args)) (num_arg (arg 2 args)) (arg 3 args))))
  else if is_cmd cmd (L "hw_src") then
    Some (render (res_json (oe500_src cd (text_arg (arg 1 args)) (map text_arg (skipn 2 args)))))
  (* ---- specification ---- *)
  else if is_cmd cmd (L "hw_gen_sig") then
    let s := sig_of_choice (arg 1 args) in
    Some (render (JObj [(L "abstract", sig_abs s); (L "hex", hexj (encode_sig s));
                        (L "words", jstrs [bytes_hex (word_a s); bytes_hex (word_b s); bytes_hex (word_c s)]);
                        (L "expected", JObj (sig_render cd s)); (L "raw", JObj (sig_render_raw s))]))
  else if is_cmd cmd (L "hw_gen_siglist") then
    let l := sigs_of_choice (arg 1 args) in
    Some (render (JObj [(L "count", jn (N.of_nat (length l))); (L "hex", hexj (encode_siglist l));
                        (L "expected", siglist_render cd l)]))
  else if is_cmd cmd (L "hw_gen_src") then
    let s := sig_of_choice (arg 2 args) in
    Some (render (JObj [(L "words", jstrs [bytes_hex (word_a s); bytes_hex (word_b s); bytes_hex (word_c s)]);
                        (L "expected", src_render cd (text_arg (arg 1 args)) s)]))
  else if is_cmd cmd (L "hw_gen_regdump") then
    match regdump_of_choice (arg 1 args) with
    | Some l => Some (render (JObj [(L "chips", jn (N.of_nat (length l)));
                                    (L "regs", jn (N.of_nat (length (flat_map h_regs l))));
                                    (L "addrs_ok", JBool (regdump_addrs_okb cd l));
                                    (L "hex", hexj (encode_regdump l));
                                    (L "expected", regdump_render cd l)]))
    | None => Some (render (JStr (L "bad choice")))
    end
  else if is_cmd cmd (L "hw_gen_scratch") then
    let b := arg 1 args in
    let ca := num4 0 b in let cv := num4 1 b in
    let sa := be_val (firstn 8 (skipn 8 b)) 0 in let sv := be_val (firstn 8 (skipn 16 b)) 0 in
    Some (render (JObj [(L "hex", hexj (encode_scratch ca cv sa sv)); (L "expected", scratch_render ca cv sa sv)]))
  else if is_cmd cmd (L "hw_gen_scratch_sig") then
    let b := arg 1 args in
    Some (render (JObj [(L "hex", hexj (encode_scratch_sig (num4 0 b) (num4 1 b)));
                        (L "expected", scratch_sig_render (num4 0 b) (num4 1 b))]))
  else if is_cmd cmd (L "hw_gen_ffdc") then
    let t := text_arg (arg 1 args) in
    match utf8_encode t with
    | Some b => Some (render (JObj [(L "hex", hexj (b ++ repeat 0 (N.to_nat (num_arg (arg 2 args)))));
                                    (L "expected", match ffdc_render t with HwOk j => j | _ => JStr (L "@raise") end)]))
    | None => Some (render (JStr (L "bad choice")))
    end
  else if is_cmd cmd (L "hw_data_back") then
    Some (render (hexj (data_back (text_arg (arg 1 args)))))
  else None.
