From Coq Require Extraction.
From Coq Require Import ExtrOcamlBasic.
From PV Require Import Extract.Api.
Cd "../build/ocaml".
Extraction "pelmodel.ml" Api.pelmodel_entry.
Cd "../../coq".
