(* I/O-drawer commands of the extracted model (C16 hlog, C14 ilog).
   hlog  <data> <size_1> <name_1> ... <size_n> <name_n>     -> JSON list of lines, or null (assertion)
   The table travels as further arguments: sizes are big-endian numbers, names are UTF-8. *)
From Coq Require Import List NArith ZArith Bool.
From PV Require Import Base.Bytes Base.Lit Base.Json Base.Utf8 Model.Hexdump Model.Hlog.
Import ListNotations.
Open Scope N_scope.

Definition io_text (b : bytes) : text := match utf8_decode b with Some t => t | None => L "<bad utf8>" end.

Fixpoint hlog_table (args : list bytes) : list hfield :=
  match args with
  | size :: name :: t => (io_text name, N.to_nat (be_val size 0)) :: hlog_table t
  | _ => []
  end.

Definition run_io (cmd : text) (args : list bytes) : option text :=
  if text_eqb cmd (L "hlog") then
    Some match parse_hlog (hlog_table (tl args)) (hd [] args) with
         | Some ls => render (jstrs ls)
         | None => L "null"
         end
  else None.
