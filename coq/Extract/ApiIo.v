(* I/O-drawer commands of the extracted model (C16 hlog, C14 ilog).  Tables travel as further arguments.
   hlog  <data> <size_1> <name_1> ... <size_n> <name_n>            -> list of lines, or null (assertion)
   ilog  <data> <pattern_1> <format_1> <params_1> ...             -> list of lines | {"unsupported":true}
                                                                     | null (assertion) | {"fuel":true}
   ilog_entry <pte> <pattern> <format> <params>                    -> {"supported":b,"matches":b,"message":s|null}
   pyfmt <format> <arg_1> ... <arg_n>                              -> {"ok":s} | "error" | "unsupported"
   timestamp <t>                                                   -> string
   Numbers are big-endian byte strings, texts are UTF-8, params is one byte per parameter. *)
From Coq Require Import List NArith ZArith Bool.
From PV Require Import Base.Bytes Base.Lit Base.Json Base.Utf8 Base.PyFmt Model.Hexdump Model.Hlog Model.Ilog.
Import ListNotations.
Open Scope N_scope.

Definition io_text (b : bytes) : text := match utf8_decode b with Some t => t | None => L "<bad utf8>" end.
Definition io_num (b : bytes) : N := be_val b 0.

Fixpoint hlog_table (args : list bytes) : list hfield :=
  match args with
  | size :: name :: t => (io_text name, N.to_nat (io_num size)) :: hlog_table t
  | _ => []
  end.

Fixpoint ilog_table (args : list bytes) : list pte_entry :=
  match args with
  | pat :: fmt :: params :: t => (io_text pat, io_text fmt, params) :: ilog_table t
  | _ => []
  end.

Definition unsupported_json : json := JObj [(L "unsupported", JBool true)].

Definition run_io (cmd : text) (args : list bytes) : option text :=
  if text_eqb cmd (L "hlog") then
    Some match parse_hlog (hlog_table (tl args)) (hd [] args) with
         | Some ls => render (jstrs ls)
         | None => L "null"
         end
  else if text_eqb cmd (L "ilog") then
    Some (render match parse_ilog (ilog_table (tl args)) (hd [] args) with
                 | IOk ls => jstrs ls
                 | IUnsupported => unsupported_json
                 | IAssert => JNull
                 | IOutOfFuel => JObj [(L "fuel", JBool true)]
                 end)
  else if text_eqb cmd (L "ilog_entry") then
    Some (render match ilog_table (tl args) with
                 | e :: _ =>
                     let pte := io_num (hd [] args) in
                     JObj [(L "supported", JBool (pat_supported (e_pat e)));
                           (L "matches", JBool (matches e pte));
                           (L "message", match get_message e pte with DOk m => JStr m | DUnsupported => JNull end)]
                 | [] => JNull
                 end)
  else if text_eqb cmd (L "pyfmt") then
    Some (render match pyfmt (io_text (hd [] args)) (map io_num (tl args)) with
                 | FOk t => JObj [(L "ok", JStr t)]
                 | FError => JStr (L "error")
                 | FUnsupported => JStr (L "unsupported")
                 end)
  else if text_eqb cmd (L "timestamp") then
    Some (render (JStr (format_timestamp (io_num (hd [] args)))))
  else None.
