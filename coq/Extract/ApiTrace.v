(* Commands of the extracted binary for the trace decoder (C15).
     trace_pyfmt <fmt utf8> <arg>...      -> string | null (the interpreter raises) | {"unsupported":true}
     trace <table> <data>                 -> [lines] | {"unsupported":true}
     trace_batch <table> <data>...        -> [answer of trace for every data]
     trace_spec <table> <hdr> <entry>...  -> {"wf":bool,"data":"hex","lines":[...],"unsupported":bool}
                                             (the Coq specification: encode_buffer and the expected display)
     trace_spec_batch <table> <buffer>... -> [answer of trace_spec]; <buffer> = <hdr> then len(4) <entry> repeated
   <table> = concatenation of records  hlen(1) hash(hlen, big-endian) flen(4) format(utf-8) llen(4) location(utf-8)
   <hdr>   = ver(1) hdr_len(1) time_flg(1) endian_flg(1) comp(12) reserved(4) size(4) times_wrap(4) next_free(4)
   <entry> = tbh(2) tbl(2) tag(2) hash(4) line(4) padlen(1) pad(padlen) data(rest) *)
From Coq Require Import List NArith ZArith Bool.
From PV Require Import Base.Bytes Base.Lit Base.Json Base.Utf8 Model.Hexdump Model.TraceFmt Model.Trace Spec.TraceSpec.
Import ListNotations.
Open Scope N_scope.

Definition t_is (c name : text) : bool := text_eqb c name.
Definition t_text (b : bytes) : text := match utf8_decode b with Some t => t | None => L "<bad utf8>" end.
Definition t_arg (n : nat) (args : list bytes) : bytes := nth n args [].

Definition take (n : nat) (d : bytes) : option (bytes * bytes) :=
  if has n d then Some (firstn n d, skipn n d) else None.

Fixpoint decode_table (fuel : nat) (d : bytes) : list tstring :=
  match fuel with
  | O => []
  | S f =>
      match d with
      | [] => []
      | hl :: d1 =>
          match take (N.to_nat hl) d1 with
          | Some (hb, d2) =>
              match take 4 d2 with
              | Some (fl, d3) =>
                  match take (N.to_nat (be_val fl 0)) d3 with
                  | Some (fb, d4) =>
                      match take 4 d4 with
                      | Some (ll, d5) =>
                          match take (N.to_nat (be_val ll 0)) d5 with
                          | Some (lb, d6) => mkTString (be_val hb 0) (t_text fb) (t_text lb) :: decode_table f d6
                          | None => []
                          end
                      | None => []
                      end
                  | None => []
                  end
              | None => []
              end
          | None => []
          end
      end
  end.
Definition table_arg (b : bytes) : list tstring := decode_table (length b) b.

Definition unsupported_json : json := JObj [(L "unsupported", JBool true)].

Definition trace_answer (tbl : list tstring) (d : bytes) : json :=
  let r := trace_fast tbl d in if fst r then jstrs (snd r) else unsupported_json.

Definition decode_aentry (b : bytes) : aentry :=
  let padlen := N.to_nat (int_at 14 1 b) in
  mkAEntry (int_at 0 2 b) (int_at 2 2 b) (int_at 4 2 b) (int_at 6 4 b) (int_at 10 4 b)
           (skipn (15 + padlen) b) (firstn padlen (skipn 15 b)).

Definition decode_abuffer (hdr : bytes) (es : list bytes) : abuffer :=
  mkABuffer (int_at 0 1 hdr) (int_at 1 1 hdr) (int_at 2 1 hdr) (int_at 3 1 hdr)
            (firstn 12 (skipn 4 hdr)) (firstn 4 (skipn 16 hdr))
            (int_at 20 4 hdr) (int_at 24 4 hdr) (int_at 28 4 hdr) (map decode_aentry es).

Definition spec_json (tbl : list tstring) (b : abuffer) : json :=
  let r := spec_answer tbl b in
  JObj [ (L "wf", JBool (wf_bufferb b));
         (L "data", JStr (bytes_hex (encode_buffer b)));
         (L "lines", jstrs (snd r));
         (L "unsupported", JBool (negb (fst r))) ].

(* one buffer in one argument: <hdr>(32) then  len(4) <entry>  repeated *)
Fixpoint split_entries (fuel : nat) (d : bytes) : list bytes :=
  match fuel with
  | O => []
  | S f =>
      match take 4 d with
      | Some (l, d1) =>
          match take (N.to_nat (be_val l 0)) d1 with
          | Some (e, d2) => e :: split_entries f d2
          | None => []
          end
      | None => []
      end
  end.
Definition abuffer_arg (b : bytes) : abuffer :=
  decode_abuffer (firstn 32 b) (split_entries (length b) (skipn 32 b)).

(* stack-safe concatenation for the (large) batch answers *)
Definition tr_app (x y : text) : text := rev_append (rev_append x []) y.
Fixpoint join_big (l : list text) : text :=
  match l with
  | [] => []
  | [x] => x
  | x :: t => tr_app x (44 :: join_big t)
  end.

Definition run_trace (cmd : text) (args : list bytes) : option text :=
  if t_is cmd (L "trace_pyfmt") then
    Some (render (match pyfmt (t_text (t_arg 0 args)) (map (fun b => be_val b 0) (tl args)) with
                  | FOk t => JStr t
                  | FError => JNull
                  | FUnsupported => unsupported_json
                  end))
  else if t_is cmd (L "trace") then
    Some (render (trace_answer (table_arg (t_arg 0 args)) (t_arg 1 args)))
  else if t_is cmd (L "trace_batch") then
    let tbl := table_arg (t_arg 0 args) in
    Some (91 :: tr_app (join_big (map (fun d => render (trace_answer tbl d)) (tl args))) [93])
  else if t_is cmd (L "trace_spec") then
    Some (render (spec_json (table_arg (t_arg 0 args)) (decode_abuffer (t_arg 1 args) (tl (tl args)))))
  else if t_is cmd (L "trace_spec_batch") then
    let tbl := table_arg (t_arg 0 args) in
    Some (91 :: tr_app (join_big (map (fun b => render (spec_json tbl (abuffer_arg b))) (tl args))) [93])
  else None.
