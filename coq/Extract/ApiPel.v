(* PEL commands of the extracted binary: generators (spec side) and the decode model. *)
From Coq Require Import List NArith ZArith Bool Arith.
From PV Require Model.JsonLoads.
From PV Require Import Base.Bytes Base.Lit Base.Json Base.Utf8 Base.PelTypes Model.Hexdump Model.Parse Model.Render Model.Pel Model.Env Model.Pretty Model.Select Model.Hwdiags
                       Spec.Encode Spec.DocOf Spec.Choice Spec.PublishedTables.
Import ListNotations.
Open Scope N_scope.

Definition is_cmd (c : text) (name : text) : bool := text_eqb c name.
Definition arg (n : nat) (args : list bytes) : bytes := nth n args [].
Definition nat_arg (b : bytes) : nat := N.to_nat (be_val b 0).

(* choices: 4 bytes each, big-endian *)
Fixpoint choices (b : bytes) : list N :=
  match b with
  | a :: b1 :: c :: d :: t => be_val [a; b1; c; d] 0 :: choices t
  | _ => []
  end.

Definition jhex (b : bytes) : json := JStr (bytes_hex b).

Definition render_outcome (o : outcome) : json :=
  match o with
  | OkDoc eid doc => JObj [(L "ok", JObj [(L "eid", JStr eid); (L "doc", JObj doc);
                                         (* does the document meet the hypothesis of the round-trip theorems (C06)? *)
                                         (L "wf", JBool (JsonLoads.wf_jsonb (JObj doc)))])]
  | Filtered => JObj [(L "filtered", JNull)]
  | BadPH => JObj [(L "badph", JNull)]
  | BadUH => JObj [(L "baduh", JNull)]
  | Reject => JObj [(L "reject", JNull)]
  | OutOfFuel => JObj [(L "outoffuel", JNull)]
  end.

(* the specification's view of the shipped parser modules *)
Definition spec_env0 : spec_env := {| se_comp_name := fun _ _ => None; se_error_details := fun _ _ => [] |}.
Definition spec_plugins0 : spec_plugins :=
  {| sp_proc_desc := fun creator proc =>
       if text_eqb creator (L "O") || text_eqb creator (L "o") then
         match assoc_t Spec.PublishedTables.ocallouts_procedures proc with Some l => Some (strs l) | None => None end
       else None;
     sp_src_details := fun creator refcode _ws =>
       if (text_eqb creator (L "O") || text_eqb creator (L "o")) && negb (text_eqb (firstn 2 refcode) (L "BC"))
          && text_eqb (map lower_c (firstn 2 (skipn 4 refcode))) (L "e5")
       then (* the hardware-diagnostics SRC parser: its rendering is specified and proved under C20 *)
            match Model.Hwdiags.oe500_src [] refcode _ws with Model.Hwdiags.HwOk j => Some j | _ => None end
       else None;
     sp_ud := fun _ _ _ _ _ => None |}.

Fixpoint offsets (start : N) (l : list section_t) : list N :=
  match l with [] => [start] | s :: t => start :: offsets (start + N.of_nat (length (enc_section s))) t end.

Definition cfg_of (b : bytes) : config := {| allow_plugins := N.testbit (be_val b 0) 0 |}.

Definition sel_of (b : bytes) (sv : bytes) : sel_config :=
  let v := be_val b 0 in
  {| every := N.testbit v 0; term := N.testbit v 1; svc := N.testbit v 2; nsvc := N.testbit v 3; hid := N.testbit v 4;
     only := N.testbit v 5; sevs := sv; lookup := N.testbit v 6 |}.

Definition uh_of (sev flags : N) : uh_t :=
  {| uh_hdr := {| h_ver := 1; h_sub := 0; h_comp := 0 |}; uh_len := 24; uh_subsys := 0; uh_scope := 0; uh_sev := sev; uh_etype := 0;
     uh_res4 := 0; uh_domain := 0; uh_vector := 0; uh_flags := flags; uh_states := 0 |}.

(* all 256 severities x the 8 combinations of the three class bits (other flag bits = noise): '0'/'1' per cell *)
Definition consider_table (c : sel_config) (noise : N) : text :=
  flat_map (fun sev => map (fun k => if consider c (uh_of (N.of_nat sev) (N.lor (N.of_nat k * 8192) noise)) then 49 else 48) (seq 0 8)) (seq 0 256).

Definition run_pel (cmd : text) (args : list bytes) : option text :=
  if is_cmd cmd (L "gen_pel") then
    let p := build_pel (be_val (arg 0 args) 0) (be_val (arg 1 args) 0) (choices (arg 3 args)) in
    let c := cfg_of (arg 2 args) in
    let data := encode p in
    Some (render (JObj [
      (L "hex", jhex data);
      (L "expected", match doc_of spec_env0 spec_plugins0 (allow_plugins c) p with Some d => JObj d | None => JNull end);
      (L "offsets", JArr (map (fun o => JNum (Z.of_N o)) (offsets 72 (p_secs p))));
      (L "ids", JArr (map (fun s => JNum (Z.of_N (sec_id s))) (p_secs p)));
      (L "model", render_outcome (decode env0 c (fun _ => true) data))]))
  else if is_cmd cmd (L "consider_table") then
    Some ([34] ++ consider_table (sel_of (arg 0 args) (arg 1 args)) (be_val (arg 2 args) 0) ++ [34])
  else if is_cmd cmd (L "pretty") then
    match utf8_decode (arg 1 args) with
    | Some t => Some (render (JStr (pretty_print (nat_arg (arg 0 args)) t)))
    | None => Some (L "null")
    end
  else if is_cmd cmd (L "loads") then
    (* json.loads of a text: {"ok": value} | {"error": true} | {"beyond": true} *)
    match utf8_decode (arg 0 args) with
    | Some t => Some (render (match JsonLoads.loads t with
                              | JsonLoads.LOk j => JObj [(L "ok", j)]
                              | JsonLoads.LError => JObj [(L "error", JBool true)]
                              | JsonLoads.LBeyond => JObj [(L "beyond", JBool true)]
                              end))
    | None => Some (L "null")
    end
  else if is_cmd cmd (L "dumps4") then
    (* json.dumps(json.loads(text), indent=4), and the same through prettyPrint at the given width *)
    match utf8_decode (arg 1 args) with
    | Some t => Some (render (match JsonLoads.loads t with
                              | JsonLoads.LOk j => JObj [(L "text", JStr (JsonLoads.dumps4 0 j));
                                                         (L "printed", JStr (pretty_print (nat_arg (arg 0 args)) (JsonLoads.dumps4 0 j)))]
                              | _ => JObj [(L "error", JBool true)]
                              end))
    | None => Some (L "null")
    end
  else if is_cmd cmd (L "decode_reg") then
    (* args: flags, data, number of component-name triples, triples (creator, "%04X" component, name), then registry entries:
       has_reason reason has_type type message has_args nargs args.. nwords (num has_desc desc source).. *)
    let tx (b : bytes) := match utf8_decode b with Some x => x | None => [] end in
    let flag1 (b : bytes) := negb (be_val b 0 =? 0) in
    let fix take_texts (n : nat) (l : list bytes) : list text * list bytes :=
      match n, l with
      | S k, x :: t => let '(a, r) := take_texts k t in (tx x :: a, r)
      | _, _ => ([], l)
      end in
    let fix take_words (n : nat) (l : list bytes) : list reg_word * list bytes :=
      match n, l with
      | S k, num :: hd :: d :: src :: t =>
          let '(a, r) := take_words k t in
          ({| rw_num := tx num; rw_desc := if flag1 hd then Some (tx d) else None; rw_source := tx src |} :: a, r)
      | _, _ => ([], l)
      end in
    let fix entries (fuel : nat) (l : list bytes) : list reg_pel :=
      match fuel, l with
      | S f, hr :: r :: ht :: t :: m :: ha :: na :: rest =>
          let '(args_, rest1) := take_texts (N.to_nat (be_val na 0)) rest in
          match rest1 with
          | nw :: rest2 =>
              let '(ws, rest3) := take_words (N.to_nat (be_val nw 0)) rest2 in
              {| r_reason := if flag1 hr then Some (tx r) else None; r_type := if flag1 ht then Some (tx t) else None;
                 r_message := tx m; r_args := if flag1 ha then Some args_ else None; r_words := ws |} :: entries f rest3
          | [] => []
          end
      | _, _ => []
      end in
    let ncomp := N.to_nat (be_val (arg 2 args) 0) in
    let fix comps (n : nat) (l : list bytes) : list (text * text * text) * list bytes :=
      match n, l with
      | S k, c :: k4 :: nm :: t => let '(a, r) := comps k t in ((tx c, tx k4, tx nm) :: a, r)
      | _, _ => ([], l)
      end in
    let '(cl, rest) := comps ncomp (skipn 3 args) in
    let fx := {| fx_registry := entries (length rest) rest;
                 fx_comp := fun cr k4 => match List.find (fun x => let '(c, k, _) := x in text_eqb c cr && text_eqb k k4) cl with
                                         | Some (_, _, nm) => Some nm | None => None end;
                 fx_ud := fun _ => None; fx_src := fun _ => None; fx_co := fun _ => None |} in
    Some (render (render_outcome (decode (env_fx fx) (cfg_of (arg 0 args)) (fun _ => true) (arg 1 args))))
  else if is_cmd cmd (L "decode_fx") then
    (* args: flags, data, then fixture quadruples: kind, module name, behaviour, text *)
    let fix quads (l : list bytes) : list (N * text * N * text) :=
      match l with
      | k :: n :: b :: p :: t =>
          (be_val k 0, match utf8_decode n with Some x => x | None => [] end, be_val b 0, match utf8_decode p with Some x => x | None => [] end) :: quads t
      | _ => []
      end in
    Some (render (render_outcome (decode (env_fx (fixtures_of (quads (skipn 2 args)))) (cfg_of (arg 0 args)) (fun _ => true) (arg 1 args))))
  else if is_cmd cmd (L "decode") then
    Some (render (render_outcome (decode env0 (cfg_of (arg 0 args)) (fun _ => true) (arg 1 args))))
  else None.
