(* Command dispatcher evaluated by the extracted binary: one request per line, arguments are byte
   strings, the answer is ASCII text.  Everything that interprets a request is Gallina; the OCaml
   driver only converts hex words to [list N] and back. *)
From Coq Require Import List NArith ZArith Bool.
From PV Require Import Base.Bytes Base.Lit Base.Json Base.Utf8 Model.Hexdump Spec.DumpFormats Gen.Tables.
From PV Require Import Extract.ApiIo.
From PV Require Import Extract.ApiPel.
From PV Require Extract.ApiCli.
From PV Require Extract.ApiHw.
From PV Require Extract.ApiTrace.
From PV Require Extract.ApiDump.
Import ListNotations.
Open Scope N_scope.

Definition is_cmd (c : text) (name : text) : bool := text_eqb c name.
Definition nat_arg (b : bytes) : nat := N.to_nat (be_val b 0).
Definition text_arg (b : bytes) : text := match utf8_decode b with Some t => t | None => L "<bad utf8>" end.
Definition arg (n : nat) (args : list bytes) : bytes := nth n args [].

Definition fmt_of (id : nat) : text :=
  match id with
  | O => Gen.Tables.DEFAULT_LINE_FORMAT
  | S k => nth k Gen.Tables.HEX_DUMP_LINE_FORMATS []
  end.

Definition run (cmd : text) (args : list bytes) : text :=
  if is_cmd cmd (L "hexdump") then
    match hexdump_gen (nat_arg (arg 0 args)) (nat_arg (arg 1 args)) (arg 2 args) with
    | Some ls => render (jstrs ls)
    | None => L "null"
    end
  else if is_cmd cmd (L "parse") then
    render (JArr (map (fun b => JNum (Z.of_N b)) (parse (fmt_of (nat_arg (arg 0 args))) (map text_arg (tl args)))))
  else if is_cmd cmd (L "render1") then
    render (jstrs (render1 (if Nat.eqb (nat_arg (arg 0 args)) 0 then hexdigU else hexdigL) (arg 1 args)))
  else if is_cmd cmd (L "render2") then
    render (jstrs (render2 (if Nat.eqb (nat_arg (arg 0 args)) 0 then hexdigU else hexdigL) (arg 1 args)))
  else match run_pel cmd args with Some t => t | None =>
       match ApiCli.run_cli cmd args with Some t => t | None =>
       match run_io cmd args with Some t => t | None =>
       match ApiTrace.run_trace cmd args with Some t => t | None =>
       match ApiHw.run_hw cmd args with Some t => t | None =>
       match ApiDump.run_dump cmd args with Some t => t | None => L """unknown command""" end end end end end end.

(* a name no model function shares: the driver calls this one *)
Definition pelmodel_entry (cmd : text) (args : list bytes) : text := run cmd args.
