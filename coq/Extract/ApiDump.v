(* Commands of the extracted binary for the I/O-drawer dump decoder (C17) and the I/O-drawer user-data plugin (C18).
     dump      <strtable> <k> <pattern fmt params>*k <data>*    -> [answer for every data]
     dump_file <strtable> <k> <pattern fmt params>*k <file>*    -> [answer for every file]; <file> = the decoded text of
                                                                   the file (UTF-8, newlines already '\n')
         answer = [lines] | {"unsupported":true} | null (the ILOG decoder's assertion) | {"fuel":true}
     dump_split   <data>*    -> [{"offsets":[..],"regions":["hex",..]}]   the model's search + sort + slices (ILOG first)
     dump_regions <data>*    -> [{"offsets":[..],"regions":["hex",..]}]   the specification (Spec/DumpSpec.v; quadratic)
     dump_gen  <choices>*    -> [{"data":"hex","regions":["hex",..]}]     Spec/DumpSpec.v dump_gen (ILOG region first)
     m2c00 <sub> <ver> <data>   -> {"ok": document} | {"unsupported":true}   the shipped-table plugin model
   <strtable> as in ApiTrace.v, the PTE triples as in ApiIo.v; numbers are big-endian byte strings. *)
From Coq Require Import List NArith ZArith Bool.
From PV Require Import Base.Bytes Base.Lit Base.Json Base.Utf8 Model.Hexdump Model.Ilog Model.Trace Model.Dump
                       Spec.DumpSpec Model.M2c00.
From PV Require Extract.ApiIo Extract.ApiTrace.
Import ListNotations.
Open Scope N_scope.

Definition d_is (c name : text) : bool := text_eqb c name.
Definition d_num (b : bytes) : N := be_val b 0.
Definition d_text (b : bytes) : text := match utf8_decode b with Some t => t | None => L "<bad utf8>" end.

Definition dump_json (r : dump_res) : json :=
  match r with
  | DumpOk ls => jstrs ls
  | DumpUnsupported => JObj [(L "unsupported", JBool true)]
  | DumpRaise => JNull
  | DumpOutOfFuel => JObj [(L "fuel", JBool true)]
  end.

Definition jnat (n : nat) : json := JNum (Z.of_nat n).
Definition jhex (b : bytes) : json := JStr (bytes_hex b).

Definition split_json (offs : list nat) (regions : list bytes) : json :=
  JObj [(L "offsets", JArr (map jnat offs)); (L "regions", JArr (map jhex regions))].

(* one big array, rendered element by element with stack-safe concatenation *)
Definition big_array (items : list text) : text := 91 :: ApiTrace.tr_app (ApiTrace.join_big items) [93].

(* <strtable> <k> <triples> <rest>* : the two tables and the remaining arguments *)
Definition with_tables (args : list bytes) (f : list pte_entry -> list tstring -> list bytes -> text) : text :=
  let strs := ApiTrace.table_arg (nth 0 args []) in
  let k := N.to_nat (d_num (nth 1 args [])) in
  let rest := skipn 2 args in
  f (ApiIo.ilog_table (firstn (3 * k) rest)) strs (skipn (3 * k) rest).

Definition m2_json (r : m2_result) : json :=
  match r with
  | M2Ok j => JObj [(L "ok", j)]
  | M2Unsupported => JObj [(L "unsupported", JBool true)]
  end.

Definition run_dump (cmd : text) (args : list bytes) : option text :=
  if d_is cmd (L "dump") then
    Some (with_tables args (fun ptes strs datas =>
            big_array (map (fun d => render (dump_json (dump_fast header_patterns ptes strs d))) datas)))
  else if d_is cmd (L "dump_file") then
    Some (with_tables args (fun ptes strs files =>
            big_array (map (fun f => render (dump_json (dump_file_fast ptes strs (readlines (d_text f))))) files)))
  else if d_is cmd (L "dump_split") then
    Some (big_array (map (fun d => let offs := dump_offsets header_patterns d in
                                   render (split_json offs (ilog_slice d offs :: trace_slices d offs))) args))
  else if d_is cmd (L "dump_regions") then
    Some (big_array (map (fun d => render (split_json (spec_offsets spec_patterns d)
                                                      (ilog_region spec_patterns d :: trace_regions spec_patterns d))) args))
  else if d_is cmd (L "dump_gen") then
    Some (big_array (map (fun cs => let g := dump_gen cs in
                                    render (JObj [(L "data", jhex (fst g)); (L "regions", JArr (map jhex (snd g)))])) args))
  else if d_is cmd (L "m2c00") then
    Some (render (m2_json (m2c00_shipped (d_num (nth 0 args [])) (d_num (nth 1 args [])) (nth 2 args []))))
  else None.
