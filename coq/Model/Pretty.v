(* Model of peltool.prettyPrint (repaired: a line is aligned only when it STARTS with a JSON key), and a JSON lexer
   used to state that alignment never changes a token.  No proofs here. *)
From Coq Require Import List NArith Bool Arith.
From PV Require Import Base.Bytes Base.Lit.
Import ListNotations.
Open Scope N_scope.

Definition q : N := 34.  Definition bs : N := 92.  Definition colon : N := 58.  Definition spc : N := 32.  Definition nl : N := 10.

(* ---- prettyPrint ---- *)
(* the body of a string literal up to its closing quote, honouring backslash pairs: (?:[^"\\]|\\.)*  then " *)
Fixpoint scan_body (l : text) : option (text * text) :=
  match l with
  | [] => None
  | c :: t =>
      if c =? q then Some ([], t)
      else if c =? bs then
        match t with
        | [] => None
        | d :: t' => match scan_body t' with Some (b, r) => Some (c :: d :: b, r) | None => None end
        end
      else match scan_body t with Some (b, r) => Some (c :: b, r) | None => None end
  end.

Fixpoint skip_sp (l : text) : text * text :=
  match l with
  | c :: t => if c =? spc then let '(a, b) := skip_sp t in (c :: a, b) else ([], l)
  | [] => ([], [])
  end.

Definition has_brace (line : text) : bool := existsb (fun x => x =? 123) line.

(* KEY_RE.match(line) and "{" not in line  ->  insert (desiredSpace - ind) spaces after the colon *)
Definition pp_line (w : nat) (line : text) : text :=
  let '(ind, r) := skip_sp line in
  match r with
  | c :: r1 =>
      if c =? q then
        match scan_body r1 with
        | Some (body, c2 :: tail) =>
            if c2 =? colon then
              if has_brace line then line
              else ind ++ q :: body ++ q :: colon :: repeat spc (w - (length ind + 1 + length body)) ++ tail
            else line
        | _ => line
        end
      else line
  | [] => line
  end.

Definition pretty_print (w : nat) (s : text) : text := join [nl] (map (pp_line w) (split nl s)).

(* ---- a JSON lexer: what json.loads sees ---- *)
Inductive tok := TStr (l : text) | TP (c : N) | TAtom (l : text).
Inductive mode := Out | InStr (acc : text) | InEsc (acc : text) | InAtom (acc : text).
Definition st := (mode * list tok)%type.

Definition is_ws (c : N) : bool := (c =? 32) || (c =? 9) || (c =? 10) || (c =? 13).
Definition is_punct (c : N) : bool := (c =? 123) || (c =? 125) || (c =? 91) || (c =? 93) || (c =? 58) || (c =? 44).

(* a raw control character inside a string literal is invalid JSON: the lexer dies *)
Definition step (s : st) (c : N) : option st :=
  let '(m, ts) := s in
  match m with
  | Out => if is_ws c then Some (Out, ts) else if c =? q then Some (InStr [], ts)
           else if is_punct c then Some (Out, TP c :: ts) else Some (InAtom [c], ts)
  | InStr acc => if c =? q then Some (Out, TStr (frev acc) :: ts) else if c =? bs then Some (InEsc acc, ts)
                 else if c <? 32 then None else Some (InStr (c :: acc), ts)
  | InEsc acc => if c <? 32 then None else Some (InStr (c :: bs :: acc), ts)
  | InAtom acc => if is_ws c then Some (Out, TAtom (frev acc) :: ts)
                  else if c =? q then Some (InStr [], TAtom (frev acc) :: ts)
                  else if is_punct c then Some (Out, TP c :: TAtom (frev acc) :: ts) else Some (InAtom (c :: acc), ts)
  end.

Fixpoint run (s : st) (l : text) : option st :=
  match l with [] => Some s | c :: t => match step s c with Some s' => run s' t | None => None end end.

(* the token sequence of a text: None when it is not lexically JSON (unterminated or broken string) *)
Definition tokens (s : text) : option (list tok) :=
  match run (Out, []) s with
  | Some (Out, ts) => Some (frev ts)
  | Some (InAtom acc, ts) => Some (frev (TAtom (frev acc) :: ts))
  | _ => None
  end.
