(* Model of the directory modes of peltool.main(): which files are looked at, in which order, what is reported,
   and which files are removed or created.  Decoding is a parameter (three partial decoders), so the frame
   properties hold whatever the decoders return.  No proofs here. *)
From Coq Require Import List NArith ZArith Bool Arith.
From PV Require Import Base.Bytes Base.Lit Base.Json Base.TextOrder.
Import ListNotations.
Open Scope N_scope.

(* ---- file selection ---- *)
(* os.path.splitext(name)[1]: from the last dot, unless everything before it is dots *)
Fixpoint last_dot (s : text) (i : nat) (best : option nat) : option nat :=
  match s with [] => best | c :: t => last_dot t (S i) (if c =? 46 then Some i else best) end.
Definition splitext_ext (name : text) : text :=
  match last_dot name 0 None with
  | None => []
  | Some i => if existsb (fun c => negb (c =? 46)) (firstn i name) then skipn i name else []
  end.

Definition ext_ok (ext : option text) (name : text) : bool :=
  match ext with
  | None | Some [] => true
  | Some e => text_eqb e (splitext_ext name)
  end.

(* getFileList: top-level file names with the extension, sorted, reversed on request *)
Definition file_list (ext : option text) (rev_order : bool) (names : list text) : list text :=
  let l := sort (filter (ext_ok ext) names) in if rev_order then rev l else l.

(* ---- what a partial decoder says about one file ---- *)
Inductive res (A : Type) :=
| Exc          (* an exception escapes: "Exception: No PEL parsed for ..." on stderr *)
| Skip         (* ("", ""): filtered by the selection options, or not a PEL header (message on stderr) *)
| Got (a : A).
Arguments Exc {A}. Arguments Skip {A}. Arguments Got {A} a.

Record decoders := {
  d_count : bytes -> res unit;                    (* generatePH + generateUH + considerPEL *)
  d_summary : bytes -> res (text * json);         (* parsePELSummary: entry id ("0x...") and summary *)
  d_full : bytes -> res (text * json) }.          (* parsePEL: entry id and document *)

Record cli_cfg := { c_ext : option text; c_rev : bool; c_hex : bool }.

(* what a directory mode writes to standard output *)
Inductive stdout_t :=
| OutCount (n : nat)
| OutList (entries : list (text * json))          (* one JSON object: entry id -> summary (dict assignment) *)
| OutAll (docs : list json)                       (* one JSON array *)
| OutHex (dumps : list bytes)                     (* delimited hex dumps, no JSON at all *)
| OutText (lines : list text).

Definition is_got {A} (r : res A) : bool := match r with Got _ => true | _ => false end.
Definition got_list {A} (l : list (res A)) : list A := flat_map (fun r => match r with Got a => [a] | _ => [] end) l.

(* names selected by each mode, in presentation order *)
Definition count_names (d : decoders) (c : cli_cfg) (content : text -> bytes) (names : list text) : list text :=
  filter (fun n => is_got (d_count d (content n))) (file_list (c_ext c) false names).
Definition list_names (d : decoders) (c : cli_cfg) (content : text -> bytes) (names : list text) : list text :=
  filter (fun n => is_got (d_summary d (content n))) (file_list (c_ext c) (c_rev c) names).
Definition all_names (d : decoders) (c : cli_cfg) (content : text -> bytes) (names : list text) : list text :=
  filter (fun n => is_got (d_full d (content n))) (file_list (c_ext c) (c_rev c) names).

Definition mode_count (d : decoders) (c : cli_cfg) (content : text -> bytes) (names : list text) : stdout_t :=
  OutCount (length (count_names d c content names)).

Definition mode_list (d : decoders) (c : cli_cfg) (content : text -> bytes) (names : list text) : stdout_t :=
  let sel := list_names d c content names in
  if c_hex c then OutHex (map content sel)
  else OutList (fold_left (fun acc n => match d_summary d (content n) with Got (eid, s) => obj_set acc eid s | _ => acc end) sel []).

Definition mode_all (d : decoders) (c : cli_cfg) (content : text -> bytes) (names : list text) : stdout_t :=
  let sel := all_names d c content names in
  if c_hex c then OutHex (map content sel)
  else OutAll (got_list (map (fun n => match d_full d (content n) with Got (_, j) => Got j | Exc => Exc | Skip => Skip end) sel)).

(* ---- directory entries that cannot be opened ----
   openPELFile answers None for them (a link whose target is gone, a file purged between the listing and the read, a
   permission error): one diagnostic on stderr, then the next file.  [oc n = None] says that n cannot be opened. *)
Definition readable (oc : text -> option bytes) (n : text) : bool := match oc n with Some _ => true | None => false end.
Definition content_of (oc : text -> option bytes) (n : text) : bytes := match oc n with Some b => b | None => [] end.
Definition mode_count_o (d : decoders) (c : cli_cfg) (oc : text -> option bytes) (names : list text) : stdout_t :=
  mode_count d c (content_of oc) (filter (readable oc) names).
Definition mode_list_o (d : decoders) (c : cli_cfg) (oc : text -> option bytes) (names : list text) : stdout_t :=
  mode_list d c (content_of oc) (filter (readable oc) names).
Definition mode_all_o (d : decoders) (c : cli_cfg) (oc : text -> option bytes) (names : list text) : stdout_t :=
  mode_all d c (content_of oc) (filter (readable oc) names).

(* stderr: one diagnostic per file whose decoder raised; exit status of every directory mode *)
Definition stderr_names (dec : bytes -> bool) (l : list text) (content : text -> bytes) : list text :=
  filter (fun n => dec (content n)) l.
Definition exit_status : nat := 0.

(* ---- look-ups ---- *)
(* processId: upper-case, drop a leading 0X, must be 8 characters *)
Definition process_id (s : text) : option text :=
  let u := map upper_c s in
  let u := if prefixb (L "0X") u then skipn 2 u else u in
  if Nat.eqb (length u) 8 then Some u else None.

(* --plid: entries of the sorted list whose displayed PLID contains the processed id *)
Definition summary_field (s : json) (k : text) : text :=
  match s with JObj l => match obj_get l k with Some (JStr v) => v | _ => [] end | _ => [] end.

Definition plid_names (d : decoders) (c : cli_cfg) (pid : text) (content : text -> bytes) (names : list text) : list text :=
  filter (fun n => match d_summary d (content n) with
                   | Got (eid, s) => negb (Nat.eqb (length eid) 0) && substrb pid (summary_field s (L "PLID"))
                   | _ => false end)
         (file_list (c_ext c) (c_rev c) names).

Definition src_names (d : decoders) (c : cli_cfg) (src : option text) (exclude : option text) (content : text -> bytes) (names : list text)
  : list text :=
  filter (fun n => match d_summary d (content n) with
                   | Got (eid, s) =>
                       (match src with Some x => negb (Nat.eqb (length x) 0) && substrb x (summary_field s (L "SRC")) | None => false end)
                       || (match exclude with Some f => negb (substrb (summary_field s (L "SRC")) f) | None => false end)
                   | _ => false end)
         (file_list (c_ext c) (c_rev c) names).

Definition mode_selected_list (d : decoders) (c : cli_cfg) (sel : list text) (content : text -> bytes) : stdout_t :=
  if c_hex c then OutHex (map content sel)
  else OutList (fold_left (fun acc n => match d_summary d (content n) with Got (eid, s) => obj_set acc eid s | _ => acc end) sel []).

(* --id / --delete: the first top-level name, in directory order, that contains the processed id *)
Definition first_containing (pid : text) (walk : list text) : option text := List.find (substrb pid) walk.

(* ---- effects on the directory ---- *)
Inductive effect := Remove (name : text) | Create (name : text).

Inductive action :=
| AFile (path : text) (clean : bool)
| AJson (clean : bool)
| AId (id : text) | ABmcId (id : text) | APlid (id : text) | ASrc (s : text) | ASrcExclude (f : text)
| AList | ACount | AAll
| ADelete (id : text) | ADeleteAll
| ANone.

(* the dispatch of main(): the first option present wins *)
Record args_t := {
  a_file : option text; a_json : bool; a_clean : bool; a_id : option text; a_bmcid : option text; a_plid : option text;
  a_src : option text; a_src_exclude : option text; a_list : bool; a_count : bool; a_all : bool;
  a_delete : option text; a_delete_all : bool }.

Definition nonempty_opt (o : option text) : option text :=
  match o with Some [] => None | x => x end.   (* argparse gives '' for an empty argument: falsy *)

Definition dispatch (a : args_t) : action :=
  match nonempty_opt (a_file a) with Some f => AFile f (a_clean a) | None =>
  if a_json a then AJson (a_clean a) else
  match nonempty_opt (a_id a) with Some i => AId i | None =>
  match nonempty_opt (a_bmcid a) with Some i => ABmcId i | None =>
  match nonempty_opt (a_plid a) with Some i => APlid i | None =>
  match nonempty_opt (a_src a) with Some s => ASrc s | None =>
  match nonempty_opt (a_src_exclude a) with Some f => ASrcExclude f | None =>
  if a_list a then AList else if a_count a then ACount else if a_all a then AAll else
  match nonempty_opt (a_delete a) with Some i => ADelete i | None =>
  if a_delete_all a then ADeleteAll else ANone end end end end end end end.

(* Files removed / created in the PEL directory by an action.  [walk] = top-level non-directory names in os.walk order,
   [regular] = those for which os.path.isfile holds, [json_ok n] = Some eid when parsePEL produced a document for n. *)
Definition effects (act : action) (walk : list text) (regular : text -> bool) (json_ok : text -> option text) (ext : option text)
  : list effect :=
  match act with
  | ADelete i =>
      match process_id i with
      | Some pid => match first_containing pid walk with Some n => [Remove n] | None => [] end
      | None => []
      end
  | ADeleteAll => map Remove (filter regular walk)
  | AJson clean =>
      flat_map (fun n => match json_ok n with
                         | Some eid => Create (n ++ L "." ++ eid ++ L ".json") :: (if clean then [Remove n] else [])
                         | None => [] end)
               (filter (ext_ok ext) walk)
  | _ => []
  end.

(* ---- --id and --bmc-id: directory order, first match wins ---- *)
Definition not_found : stdout_t := OutText [L "PEL not found"].

(* parsePelFromID: the first name containing the id is parsed and printed (nothing is printed if it does not decode) *)
Definition mode_id (d : decoders) (hexm : bool) (id : text) (content : text -> bytes) (walk : list text) : option stdout_t :=
  match process_id id with
  | None => None                                    (* sys.exit("Invalid length of ID is provided!") *)
  | Some pid =>
      Some match first_containing pid walk with
           | None => not_found
           | Some n => match d_full d (content n) with
                       | Got (_, j) => if hexm then OutHex [content n] else OutAll [j]
                       | _ => OutAll []
                       end
           end
  end.

(* parsePelFromBmcID: the first file whose Private Header carries the id and whose full decode does not raise *)
Definition bmc_match (d : decoders) (obmc : bytes -> option N) (id : text) (content : text -> bytes) (n : text) : bool :=
  match obmc (content n) with
  | Some v => text_eqb (dec v) id && negb (match d_full d (content n) with Exc => true | _ => false end)
  | None => false
  end.
Definition mode_bmcid (d : decoders) (obmc : bytes -> option N) (hexm : bool) (id : text) (content : text -> bytes) (walk : list text)
  : stdout_t :=
  match List.find (bmc_match d obmc id content) walk with
  | None => not_found
  | Some n => match d_full d (content n) with
              | Got (_, j) => if hexm then OutHex [content n] else OutAll [j]
              | _ => OutAll []
              end
  end.
