(* The three partial decoders of the directory modes, instantiated with the PEL model. *)
From Coq Require Import List NArith Bool.
From PV Require Import Base.Bytes Base.Json Base.PelTypes Model.Render Model.Pel Model.Select Model.Cli.
Import ListNotations.

Definition to_res {A} (p : part A) : res A := match p with PExc => Exc | PSkip => Skip | PGot a => Got a end.

Definition decoders_of (e : env) (c : config) (s : sel_config) : decoders :=
  {| d_count := fun b => to_res (decode_count e (consider s) b);
     d_summary := fun b => to_res (decode_summary e c (consider s) b);
     d_full := fun b => to_res (decode_full e c (consider s) b) |}.
