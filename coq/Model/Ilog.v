(* Model of modules/io_drawer/ilog.py (PTETableEntry, PTETable.get_entry, parse_ilog_data) and
   modules/io_drawer/utils.py (format_timestamp) on an ABSTRACT PTE table.
   The header-file grammar (_parse_header_file/_add_entry) is not modelled: the table is an argument, a list
   of (pte_pattern, message_format, params); the harness obtains it from the real PTETable(path).entries.
   Patterns are compiled by the code as regular expressions ('*' -> '.', IGNORECASE, fullmatch against the
   8 hex digits of the PTE); the model covers patterns made of ASCII characters that are not regex
   metacharacters plus '*', and answers IUnsupported for any other table.  Definitions only. *)
From Coq Require Import List NArith Bool Arith.
From PV Require Import Base.Bytes Base.Lit Base.PyFmt Gen.Tables.
Import ListNotations.
Open Scope N_scope.

Definition pte_entry := (text * text * list N)%type.      (* (pte_pattern, message_format, params) *)
Definition e_pat (e : pte_entry) : text := fst (fst e).
Definition e_fmt (e : pte_entry) : text := snd (fst e).
Definition e_params (e : pte_entry) : list N := snd e.

(* ---- utils.format_timestamp ---- *)
Definition rjust (w : nat) (fill : N) (s : text) : text := repeat fill (w - length s) ++ s.

Definition format_timestamp (t : N) : text :=
  if 65535 <=? t then L "--------"                               (* (timestamp < 0) or (timestamp >= 0xFFFF) *)
  else
    let hh := t / 3600 in
    let mm := (t - hh * 3600) / 60 in
    let ss := t - hh * 3600 - mm * 60 in
    rjust 2 32 (dec hh) ++ [58] ++ rjust 2 48 (dec mm) ++ [58] ++ rjust 2 48 (dec ss).   (* {hh:2d}:{mm:02d}:{ss:02d} *)

(* ---- PTETableEntry ---- *)
(* characters with a meaning in a regular expression, other than '*':  . ^ $ + ? { } [ ] \ | ( ) *)
Definition is_regex_meta (c : N) : bool :=
  (c =? 46) || (c =? 94) || (c =? 36) || (c =? 43) || (c =? 63) || (c =? 123) || (c =? 125)
  || (c =? 91) || (c =? 93) || (c =? 92) || (c =? 124) || (c =? 40) || (c =? 41).
Definition pat_char_ok (c : N) : bool := (c <? 128) && negb (is_regex_meta c).
Definition pat_supported (p : text) : bool := forallb pat_char_ok p.
Definition table_supported (tbl : list pte_entry) : bool := forallb (fun e => pat_supported (e_pat e)) tbl.

Definition c_star : N := 42.
(* pte_re.fullmatch(hex_string): same length, each pattern character is '*' or equals the digit ignoring case *)
Fixpoint pat_match (p h : text) : bool :=
  match p, h with
  | [], [] => true
  | pc :: p', hc :: h' => ((pc =? c_star) || (upper_c pc =? upper_c hc)) && pat_match p' h'
  | _, _ => false
  end.

Definition is_exact_match (e : pte_entry) (pte : N) : bool := pat_match (e_pat e) (hexU 8 pte).   (* f'{pte:08X}' *)

Definition is_reported_error_pte (pte : N) : bool :=
  (N.land pte ilog_ERROR_MASK =? ilog_ERROR_VALUE) && (N.land pte ilog_REPORTED_MASK =? ilog_REPORTED_VALUE).

Definition matches (e : pte_entry) (pte : N) : bool :=
  is_exact_match e pte
  || (is_reported_error_pte pte && is_exact_match e (N.ldiff pte ilog_REPORTED_MASK)).      (* pte &= ~REPORTED_MASK *)

(* constructor: parameters outside 1..4 are discarded *)
Definition valid_param (p : N) : bool := (1 <=? p) && (p <=? 4).

Inductive descr_res := DOk (t : text) | DUnsupported.

Definition suffix : text := L " - PEL entry created".

Definition get_message (e : pte_entry) (pte : N) : descr_res :=
  let pte_bytes := be_bytes 4 (N.land pte 4294967295) in
  let param_values := map (fun p => nth (N.to_nat (p - 1)) pte_bytes 0) (filter valid_param (e_params e)) in
  let sfx := if is_reported_error_pte pte then suffix else [] in
  match pyfmt (e_fmt e) param_values with
  | FOk m => DOk (m ++ sfx)
  | FError => DOk (e_fmt e ++ sfx)                               (* except Exception: message = format *)
  | FUnsupported => DUnsupported
  end.

(* ---- PTETable.get_entry: first match in table order ---- *)
(* [matches e pte] for each e in turn; the two hex strings and the reported test depend only on the PTE and
   are computed once here (the code formats them again for every table entry - same values; equality with
   the entry-by-entry form is Proofs/IlogFacts.get_entry_first_match) *)
Fixpoint find_entry (h hclr : text) (rep : bool) (tbl : list pte_entry) : option pte_entry :=
  match tbl with
  | [] => None
  | e :: t => if pat_match (e_pat e) h || (rep && pat_match (e_pat e) hclr) then Some e
              else find_entry h hclr rep t
  end.
Definition get_entry (tbl : list pte_entry) (pte : N) : option pte_entry :=
  find_entry (hexU 8 pte) (hexU 8 (N.ldiff pte ilog_REPORTED_MASK)) (is_reported_error_pte pte) tbl.

Definition descr (tbl : list pte_entry) (pte : N) : descr_res :=
  match get_entry tbl pte with
  | Some e => get_message e pte
  | None => DOk (L "Undefined")
  end.

(* ---- parse_ilog_data ---- *)
Inductive ilog_res := IOk (lines : list text) | IUnsupported | IAssert | IOutOfFuel.

Definition icons (l : text) (r : ilog_res) : ilog_res :=
  match r with IOk ls => IOk (l :: ls) | other => other end.

(* DataStream.get_int(n): None = the range assertion fails *)
Definition get_int (n : nat) (d : bytes) : option (N * bytes) :=
  if Nat.leb n (length d) then Some (be_val (firstn n d) 0, skipn n d) else None.

Definition entry_line (tbl : list pte_entry) (ts seq pte : N) : descr_res :=
  match descr tbl pte with
  | DOk m => DOk (format_timestamp ts ++ [32] ++ hexU 4 seq ++ [32] ++ hexU 8 pte ++ [32] ++ m)
  | DUnsupported => DUnsupported
  end.

Fixpoint ilog_loop (fuel : nat) (tbl : list pte_entry) (d : bytes) : ilog_res :=
  match fuel with
  | O => IOutOfFuel
  | S f =>
      if Nat.leb (N.to_nat ilog_ILOG_ENTRY_SIZE) (length d) then        (* while stream.check_range(ILOG_ENTRY_SIZE) *)
        match get_int 2 d with
        | Some (ts, d1) =>
            match get_int 2 d1 with
            | Some (seq, d2) =>
                match get_int 4 d2 with
                | Some (pte, d3) =>
                    if (ts =? 0) && (seq =? 0) && (pte =? 0) then ilog_loop f tbl d3
                    else match entry_line tbl ts seq pte with
                         | DOk l => icons l (ilog_loop f tbl d3)
                         | DUnsupported => IUnsupported
                         end
                | None => IAssert
                end
            | None => IAssert
            end
        | None => IAssert
        end
      else IOk []
  end.

Definition heading : list text :=
  [L "hh:mm:ss seq  pppppppp description";
   L "-------- ---- -------- ------------------------------------"].

Definition with_heading (r : ilog_res) : ilog_res :=
  match r with IOk ls => IOk (heading ++ ls) | other => other end.

Definition parse_ilog (tbl : list pte_entry) (d : bytes) : ilog_res :=
  if table_supported tbl then with_heading (ilog_loop (S (length d)) tbl d) else IUnsupported.

(* ---- used to state the theorems: the line of one 8-byte entry, and a list of line results as one result ---- *)
Definition line (tbl : list pte_entry) (e : bytes) : descr_res :=
  entry_line tbl (be_val (firstn 2 e) 0) (be_val (firstn 2 (skipn 2 e)) 0) (be_val (skipn 4 e) 0).

Fixpoint lines_of (rs : list descr_res) : ilog_res :=
  match rs with
  | [] => IOk []
  | DOk l :: t => icons l (lines_of t)
  | DUnsupported :: _ => IUnsupported
  end.
