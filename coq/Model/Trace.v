(* Model of modules/io_drawer/trace.py : parse_trace_data and everything it calls, over an abstract
   trace-string table (the regular-expression parsing of the string file is not modelled; the harness
   obtains the table from TraceStringFile itself).  Also modules/io_drawer/utils.py : format_timestamp.
   Constants come from Gen.Tables (regenerated from /repo every run).  Definitions only. *)
From Coq Require Import List NArith Bool Arith.
From PV Require Import Base.Bytes Base.Lit Model.Hexdump Model.TraceFmt Gen.Tables.
Import ListNotations.
Open Scope N_scope.

(* ---------- constants (class attributes of TraceBufferHeader / TraceEntry) ---------- *)
Definition HDR_SIZE : nat := N.to_nat Gen.Tables.TraceBufferHeader_SIZE.
Definition FIXED_SIZE : nat := N.to_nat Gen.Tables.TraceEntry_FIXED_SIZE.
Definition MAX_DATA_LEN : N := Gen.Tables.TraceEntry_MAX_DATA_LEN.
Definition TYPE_FIELDBIN : N := Gen.Tables.TraceEntry_TYPE_FIELDBIN.
Definition MAX_ARGS : nat := N.to_nat Gen.Tables.TraceEntry_MAX_ARGS.

(* ---------- trace strings ---------- *)
Record tstring := mkTString { ts_hash : N; ts_format : text; ts_location : text }.

Definition is_match (s : tstring) (h : N) : bool := ts_hash s =? h.
Definition is_partial_match (s : tstring) (h : N) : bool :=
  negb (ts_hash s =? h) && (ts_hash s mod 100000 =? h mod 100000).

(* TraceStringFile.get_trace_string: the loop, with the saved partial match as accumulator *)
Fixpoint lookup_from (tbl : list tstring) (h : N) (partial : option tstring) : option tstring :=
  match tbl with
  | [] => partial
  | s :: t =>
      if is_match s h then Some s
      else if is_partial_match s h then lookup_from t h (Some s)
      else lookup_from t h partial
  end.
Definition get_trace_string (tbl : list tstring) (h : N) : option tstring := lookup_from tbl h None.

(* ---------- stream helpers: check_range(n) on the remaining bytes ---------- *)
Fixpoint has (n : nat) (d : bytes) : bool :=
  match n, d with
  | O, _ => true
  | S k, _ :: t => has k t
  | S _, [] => false
  end.
Definition int_at (off n : nat) (d : bytes) : N := be_val (firstn n (skipn off d)) 0.

(* ---------- TraceBufferHeader ---------- *)
Record header := mkHeader {
  h_ver : N; h_hdr_len : N; h_time_flg : N; h_endian_flg : N;
  h_comp : text; h_size : N; h_times_wrap : N; h_next_free : N }.

(* str(mv, 'ascii', errors='ignore').rstrip('\0').rstrip(' ') *)
Definition is_space (c : N) : bool := c =? 32.
Definition comp_text (b : bytes) : text :=
  rstrip_by is_space (rstrip_by is_nul (filter (fun c => c <? 128) b)).

(* Some (header, remaining bytes) ; None = check_range(SIZE) fails *)
Definition header_read (d : bytes) : option (header * bytes) :=
  if has HDR_SIZE d then
    Some (mkHeader (int_at 0 1 d) (int_at 1 1 d) (int_at 2 1 d) (int_at 3 1 d)
                   (comp_text (firstn 12 (skipn 4 d)))
                   (int_at 20 4 d) (int_at 24 4 d) (int_at 28 4 d),
          skipn 32 d)
  else None.

(* ---------- TraceEntry ---------- *)
Record entry := mkEntry {
  e_tbh : N; e_tbl : N; e_length : N; e_tag : N; e_hash : N; e_line : N; e_data : bytes }.

Definition is_binary_trace (e : entry) : bool := e_tag e =? TYPE_FIELDBIN.

Definition pad_size (len : N) : N := if len mod 4 =? 0 then 0 else 4 - len mod 4.

(* TraceEntry.read on the remaining bytes: Some (entry, bytes consumed, remaining) ; None = returns False *)
Definition entry_read (d : bytes) : option (entry * N * bytes) :=
  if has FIXED_SIZE d then
    let tbh := int_at 0 2 d in let tbl := int_at 2 2 d in
    let len := int_at 4 2 d in let tag := int_at 6 2 d in
    let hash := int_at 8 4 d in let line := int_at 12 4 d in
    let d1 := skipn 16 d in
    if MAX_DATA_LEN <? len then None
    else
      let n := N.to_nat len in
      let p := N.to_nat (pad_size len) in
      (* length = 0: no data, no pad; otherwise check_range(length), then check_range(pad) when pad > 0 *)
      if has (n + p) d1 then
        let data := firstn n d1 in
        let d2 := skipn (n + p) d1 in
        if has 4 d2 then
          let total := 16 + len + pad_size len + 4 in     (* stream.index - start_index *)
          if int_at 0 4 d2 =? total
          then Some (mkEntry tbh tbl len tag hash line data, total, skipn 4 d2)
          else None
        else None
      else None
  else None.

(* TraceEntry.get_args: up to MAX_ARGS big-endian words while four bytes remain; none for binary entries *)
Fixpoint get_words (n : nat) (d : bytes) : list N :=
  match n with
  | O => []
  | S k => if has 4 d then int_at 0 4 d :: get_words k (skipn 4 d) else []
  end.
Definition get_args (e : entry) : list N :=
  if is_binary_trace e then [] else get_words MAX_ARGS (e_data e).

(* TraceBuffer.read: while stream.index < header.size.  None = out of fuel *)
Fixpoint read_entries (fuel : nat) (size idx : N) (d : bytes) : option (list entry) :=
  match fuel with
  | O => None
  | S f =>
      if idx <? size then
        match entry_read d with
        | Some (e, n, rest) => option_map (cons e) (read_entries f size (idx + n) rest)
        | None => Some []
        end
      else Some []
  end.

(* ---------- utils.format_timestamp ---------- *)
Definition dec2 (v : N) : text := [48 + (v / 10) mod 10; 48 + v mod 10].          (* {:02d} for v < 100 *)
Definition rjust (w : nat) (fill : N) (s : text) : text := repeat fill (w - length s) ++ s.
Definition format_timestamp (ts : N) : text :=
  if 65535 <=? ts then L "--------"
  else
    let hh := ts / 3600 in
    let mm := (ts - hh * 3600) / 60 in
    let ss := ts - hh * 3600 - mm * 60 in
    rjust 2 32 (dec hh) ++ [58] ++ dec2 mm ++ [58] ++ dec2 ss.

(* ---------- _format_trace_entry ---------- *)
Definition indent : text := repeat 32 20.
Definition no_string_msg (h : N) : text := L "No trace string found with hash value " ++ dec h.
Definition entry_line (e : entry) (message : text) : text :=
  format_timestamp (e_tbh e) ++ [32] ++ hexU 4 (e_tbl e) ++ [32] ++ rjust 5 32 (dec (e_line e)) ++ [32] ++ message.
Definition warning_line (s : tstring) : text :=
  indent ++ L "Warning: Partial match with trace string from " ++ ts_location s.
Definition dump_of (e : entry) : list text := map (fun l => indent ++ l) (hexdump (e_data e)).

(* the body of _format_trace_entry once the trace string has been looked up *)
Definition format_with (found : option tstring) (e : entry) : list text :=
  match found with
  | Some s =>
      let partial := is_partial_match s (e_hash e) in
      entry_line e (get_message (ts_format s) (get_args e))
      :: (if partial then [warning_line s] else [])
      ++ (if is_binary_trace e || partial then dump_of e else [])
  | None => entry_line e (no_string_msg (e_hash e)) :: dump_of e
  end.
Definition format_entry (tbl : list tstring) (e : entry) : list text :=
  format_with (get_trace_string tbl (e_hash e)) e.

(* ---------- parse_trace_data ---------- *)
Definition header_lines (h : header) : list text :=
  [ L "Component: " ++ h_comp h; L "Version: " ++ dec (h_ver h); L "Size: " ++ dec (h_size h);
    L "Times Wrapped: " ++ dec (h_times_wrap h); [];
    L "HH:MM:SS Seq  Line  Entry Data"; L "-------- ---- ----- ----------" ].

Definition unparsed (d : bytes) : list text := L "Unable to parse trace data." :: hexdump d.

Definition parse_trace_fuel (fuel : nat) (tbl : list tstring) (d : bytes) : option (list text) :=
  match header_read d with
  | Some (h, rest) =>
      match read_entries fuel (h_size h) 32 rest with
      | Some es => Some (header_lines h ++ flat_map (format_entry tbl) es)
      | None => None
      end
  | None => Some (unparsed d)
  end.

Definition parse_trace (tbl : list tstring) (d : bytes) : list text :=
  match parse_trace_fuel (S (length d)) tbl d with
  | Some ls => ls
  | None => [L "<out of fuel>"]
  end.

(* true when some shown entry needs a %-conversion outside the modelled fragment (harness skips those) *)
Definition supported_with (found : option tstring) (e : entry) : bool :=
  match found with
  | Some s => fmt_supported (ts_format s) (get_args e)
  | None => true
  end.
Definition entry_supported (tbl : list tstring) (e : entry) : bool :=
  supported_with (get_trace_string tbl (e_hash e)) e.
Definition trace_supported (tbl : list tstring) (d : bytes) : bool :=
  match header_read d with
  | Some (h, rest) =>
      match read_entries (S (length d)) (h_size h) 32 rest with
      | Some es => forallb (entry_supported tbl) es
      | None => false
      end
  | None => true
  end.

(* the same two results with one table lookup per entry (what the extracted binary evaluates;
   Proofs/TraceFacts.v : trace_fast_eq shows it is the pair of the two functions above) *)
Definition answer_entries (tbl : list tstring) (es : list entry) : bool * list text :=
  fold_right (fun e acc =>
                let f := get_trace_string tbl (e_hash e) in
                (supported_with f e && fst acc, format_with f e ++ snd acc)) (true, []) es.
Definition trace_fast (tbl : list tstring) (d : bytes) : bool * list text :=
  match header_read d with
  | Some (h, rest) =>
      match read_entries (S (length d)) (h_size h) 32 rest with
      | Some es => let r := answer_entries tbl es in (fst r, header_lines h ++ snd r)
      | None => (false, [L "<out of fuel>"])
      end
  | None => (true, unparsed d)
  end.
