(* Model of CPython's  fmt % args  (Objects/unicodeobject.c, PyUnicode_Format) for the case the trace
   decoder uses it: [fmt] a str, [args] a tuple of non-negative ints (TraceEntry.get_args).
   Supported: literal text, %%, conversions d i u x X c s with flags "- + space # 0", a decimal width,
   a decimal precision, one ignored length modifier (h l L).
   [FError]       = the interpreter raises (ValueError / TypeError / OverflowError); the caller falls back
                    to the raw format string (TraceString.get_message: except Exception).
   [FUnsupported] = valid or possibly valid Python that this model does not cover ('*' width/precision,
                    o r a e E f F g G conversions, widths/precisions above [big]); the harness skips and
                    counts such cases.
   One left-to-right pass over the format string; the parser state mirrors unicode_format_arg_parse.
   Definitions only. *)
From Coq Require Import List NArith Bool Arith.
From PV Require Import Base.Bytes.
Import ListNotations.
Open Scope N_scope.

Inductive fmt_res := FOk (t : text) | FError | FUnsupported.

Record flags := mkFlags { fl_ljust : bool; fl_sign : bool; fl_blank : bool; fl_alt : bool; fl_zero : bool }.
Definition no_flags : flags := mkFlags false false false false false.

Inductive pstate :=
| PLit                                                (* copying literal text *)
| PPct                                                (* just after '%' *)
| PFlags (f : flags)                                  (* reading flags *)
| PWidth (f : flags) (w : N)                          (* reading width digits *)
| PDot (f : flags) (w : option N)                     (* just after '.' *)
| PPrec (f : flags) (w : option N) (p : N)            (* reading precision digits *)
| PConv (f : flags) (w : option N) (p : option N).    (* after one length modifier *)

Inductive step_res := Next (st : pstate) (args : list N) (emit : text) | Halt (r : fmt_res).

Definition big : N := 100000.
Definition is_digit (c : N) : bool := (48 <=? c) && (c <=? 57).
Definition c_pct : N := 37.

Definition upper_hex (c : N) : N := if (97 <=? c) && (c <=? 102) then c - 32 else c.
Definition zeros (n : nat) : text := repeat 48 n.
Definition spaces (n : nat) : text := repeat 32 n.
Definition natw (w : option N) : nat := match w with Some n => N.to_nat n | None => O end.

(* unicode_format_arg_output for a numeric conversion of a non-negative int:
   [prefix] is "0x"/"0X" (alternate form) or empty, [digits] already carry the precision zeros *)
Definition out_num (f : flags) (w : option N) (prefix digits : text) : text :=
  let sign := if fl_sign f then [43] else if fl_blank f then [32] else [] in
  let len0 := (length prefix + length digits)%nat in
  let w0 := Nat.max (natw w) len0 in
  let w1 := match sign with [] => w0 | _ => if Nat.ltb len0 w0 then (w0 - 1)%nat else w0 end in
  let padn := (w1 - len0)%nat in
  if fl_zero f then
    sign ++ prefix ++ (if fl_ljust f then [] else zeros padn) ++ digits ++ (if fl_ljust f then spaces padn else [])
  else
    (if fl_ljust f then [] else spaces padn) ++ sign ++ prefix ++ digits ++ (if fl_ljust f then spaces padn else []).

(* ... and for %c / %s (never a sign, always padded with spaces) *)
Definition out_str (f : flags) (w : option N) (s : text) : text :=
  let padn := (natw w - length s)%nat in
  if fl_ljust f then s ++ spaces padn else spaces padn ++ s.

Definition with_prec (p : option N) (digits : text) : text :=
  match p with
  | Some n => zeros (N.to_nat n - length digits) ++ digits
  | None => digits
  end.

Definition conv_int (f : flags) (w p : option N) (c v : N) : text :=
  if (c =? 120) then out_num f w (if fl_alt f then [48; 120] else []) (with_prec p (hexL 1 v))
  else if (c =? 88) then out_num f w (if fl_alt f then [48; 88] else []) (with_prec p (hexU 1 v))
  else out_num f w [] (with_prec p (dec v)).

Definition is_int_conv (c : N) : bool := (c =? 100) || (c =? 105) || (c =? 117) || (c =? 120) || (c =? 88).
(* o r a e E f F g G : accepted by the interpreter, not modelled *)
Definition is_other_conv (c : N) : bool :=
  (c =? 111) || (c =? 114) || (c =? 97) || (c =? 101) || (c =? 69) || (c =? 102) || (c =? 70) || (c =? 103) || (c =? 71).

Definition do_conv (f : flags) (w p : option N) (c : N) (args : list N) : step_res :=
  match args with
  | [] => Halt FError                                   (* not enough arguments for format string *)
  | v :: rest =>
      if is_int_conv c then Next PLit rest (conv_int f w p c v)
      else if c =? 99 then                              (* %c *)
        (if v <=? 1114111 then Next PLit rest (out_str f w [v]) else Halt FError)
      else if c =? 115 then                             (* %s : str(int), truncated to the precision *)
        Next PLit rest (out_str f w (match p with Some n => firstn (N.to_nat n) (dec v) | None => dec v end))
      else if is_other_conv c then Halt FUnsupported
      else Halt FError                                  (* unsupported format character *)
  end.

Definition do_len (f : flags) (w p : option N) (c : N) (args : list N) : step_res :=
  if (c =? 104) || (c =? 108) || (c =? 76) then Next (PConv f w p) args [] else do_conv f w p c args.

Definition do_prec_start (f : flags) (w : option N) (c : N) (args : list N) : step_res :=
  if c =? 46 then Next (PDot f w) args [] else do_len f w None c args.

Definition do_width_start (f : flags) (c : N) (args : list N) : step_res :=
  if c =? 42 then Halt FUnsupported
  else if is_digit c then Next (PWidth f (c - 48)) args []
  else do_prec_start f None c args.

Definition do_flags (f : flags) (c : N) (args : list N) : step_res :=
  if c =? 45 then Next (PFlags (mkFlags true (fl_sign f) (fl_blank f) (fl_alt f) (fl_zero f))) args []
  else if c =? 43 then Next (PFlags (mkFlags (fl_ljust f) true (fl_blank f) (fl_alt f) (fl_zero f))) args []
  else if c =? 32 then Next (PFlags (mkFlags (fl_ljust f) (fl_sign f) true (fl_alt f) (fl_zero f))) args []
  else if c =? 35 then Next (PFlags (mkFlags (fl_ljust f) (fl_sign f) (fl_blank f) true (fl_zero f))) args []
  else if c =? 48 then Next (PFlags (mkFlags (fl_ljust f) (fl_sign f) (fl_blank f) (fl_alt f) true)) args []
  else do_width_start f c args.

Definition step (st : pstate) (args : list N) (c : N) : step_res :=
  match st with
  | PLit => if c =? c_pct then Next PPct args [] else Next PLit args [c]
  | PPct =>
      if c =? c_pct then Next PLit args [c_pct]
      else if c =? 40 then Halt FError                  (* %(key) : format requires a mapping *)
      else do_flags no_flags c args
  | PFlags f => do_flags f c args
  | PWidth f w =>
      if is_digit c then
        (let w' := w * 10 + (c - 48) in if big <? w' then Halt FUnsupported else Next (PWidth f w') args [])
      else do_prec_start f (Some w) c args
  | PDot f w =>
      if c =? 42 then Halt FUnsupported
      else if is_digit c then Next (PPrec f w (c - 48)) args []
      else do_len f w (Some 0) c args
  | PPrec f w p =>
      if is_digit c then
        (let p' := p * 10 + (c - 48) in if big <? p' then Halt FUnsupported else Next (PPrec f w p') args [])
      else do_len f w (Some p) c args
  | PConv f w p => do_conv f w p c args
  end.

(* [acc] is the output so far, reversed *)
Fixpoint fmt_go (s : text) (st : pstate) (args : list N) (acc : text) : fmt_res :=
  match s with
  | [] =>
      match st, args with
      | PLit, [] => FOk (rev acc)
      | _, _ => FError                                  (* incomplete format / not all arguments converted *)
      end
  | c :: t =>
      match step st args c with
      | Next st' args' emit => fmt_go t st' args' (rev_append emit acc)
      | Halt r => r
      end
  end.

Definition pyfmt (fmt : text) (args : list N) : fmt_res := fmt_go fmt PLit args [].

(* TraceString.get_message: any exception falls back to the raw format *)
Definition get_message (fmt : text) (args : list N) : text :=
  match pyfmt fmt args with FOk t => t | _ => fmt end.

Definition fmt_supported (fmt : text) (args : list N) : bool :=
  match pyfmt fmt args with FUnsupported => false | _ => true end.
