(* Model of the byte-consuming half of modules/pel/peltool: parseHeader, the section constructors and
   the reading parts of their toJSON methods, in the order the Python reads.  No proofs here. *)
From Coq Require Import List NArith Bool Arith.
From PV Require Import Base.Bytes Base.Reader Base.PelTypes Gen.Tables.
Import ListNotations.
Open Scope N_scope.

Definition has (flags mask : N) : bool := negb (N.land flags mask =? 0).

Definition parse_header : reader (N * N * shdr) :=
  id <- get_int 2 ;; len <- get_int 2 ;; ver <- get_int 1 ;; sub <- get_int 1 ;; comp <- get_int 2 ;;
  ret (id, len, {| h_ver := ver; h_sub := sub; h_comp := comp |}).

(* getTimestamp: 2+1+1+1+1+1+1 bytes *)
Definition get_timestamp : reader bytes :=
  y <- get_mem 2 ;; m <- get_mem 1 ;; d <- get_mem 1 ;; h <- get_mem 1 ;; mi <- get_mem 1 ;; s <- get_mem 1 ;; hs <- get_mem 1 ;;
  ret (y ++ m ++ d ++ h ++ mi ++ s ++ hs).

Definition parse_ph_body (len : N) (h : shdr) : reader ph_t :=
  cr <- get_timestamp ;; cm <- get_timestamp ;;
  creator <- get_int 1 ;; r0 <- get_int 1 ;; r1 <- get_int 1 ;; cnt <- get_int 1 ;;
  obmc <- get_int 4 ;; cver <- get_int 8 ;; plid <- get_int 4 ;; eid <- get_int 4 ;;
  ret {| ph_hdr := h; ph_len := len; ph_create := cr; ph_commit := cm; ph_creator := creator; ph_res0 := r0; ph_res1 := r1;
         ph_count := cnt; ph_obmc := obmc; ph_cver := cver; ph_plid := plid; ph_eid := eid |}.

Definition parse_uh_body (len : N) (h : shdr) : reader uh_t :=
  a <- get_int 1 ;; b <- get_int 1 ;; c <- get_int 1 ;; d <- get_int 1 ;; r <- get_int 4 ;;
  e <- get_int 1 ;; f <- get_int 1 ;; g <- get_int 2 ;; st <- get_int 4 ;;
  ret {| uh_hdr := h; uh_len := len; uh_subsys := a; uh_scope := b; uh_sev := c; uh_etype := d; uh_res4 := r;
         uh_domain := e; uh_vector := f; uh_flags := g; uh_states := st |}.

(* ---- SRC callouts ---- *)
Definition opt_mem (cond : bool) (n : nat) : reader bytes := if cond then get_mem n else ret [].

Definition parse_fru : reader fru_t :=
  _ <- get_int 2 ;; sz <- get_int 1 ;; fl <- get_int 1 ;;
  pn <- opt_mem (has fl Flags_pnSupplied || has fl Flags_maintProcSupplied) 8 ;;
  cc <- opt_mem (has fl Flags_ccinSupplied) 4 ;;
  sn <- opt_mem (has fl Flags_snSupplied) 12 ;;
  ret {| f_size := sz; f_flags := fl; f_pn := pn; f_ccin := cc; f_sn := sn |}.
Definition fru_flat (f : fru_t) : N := 4 + N.of_nat (length (f_pn f)) + N.of_nat (length (f_ccin f)) + N.of_nat (length (f_sn f)).

Definition parse_pce : reader pce_t :=
  _ <- get_int 2 ;; sz <- get_int 1 ;; fl <- get_int 1 ;; mtm <- get_mem 8 ;; sn <- get_mem 12 ;;
  if sz <? 24 then fail    (* pceName stays unset; rendering the callout then raises AttributeError *)
  else nm <- get_memN (sz - 24) ;; ret {| p_size := sz; p_flags := fl; p_mtm := mtm; p_sn := sn; p_name := nm |}.

Definition parse_mru : reader mru_t :=
  _ <- get_int 2 ;; sz <- get_int 1 ;; fl <- get_int 1 ;; res <- get_int 4 ;;
  l <- read_n (N.to_nat (N.land fl 15)) (p <- get_int 4 ;; i <- get_int 4 ;; ret (p, i)) ;;
  ret {| m_size := sz; m_flags := fl; m_res := res; m_list := l |}.

Definition sub_flat (s : sub_t) : N :=
  match s with SubFru f => fru_flat f | SubPce p => p_size p | SubMru m => m_size m end.

(* while self.size > currentSize: peek the type, read the substructure, advance currentSize *)
Fixpoint parse_subs (fuel : nat) (size cur : N) (acc : list sub_t) : reader (option (list sub_t)) :=
  match fuel with
  | O => ret None
  | S f =>
      if cur <? size then
        t <- peek2 ;;
        if t =? 18756 (* 'ID' *) then s <- parse_fru ;; parse_subs f size (cur + fru_flat s) (SubFru s :: acc)
        else if t =? 20549 (* 'PE' *) then s <- parse_pce ;; parse_subs f size (cur + p_size s) (SubPce s :: acc)
        else if t =? 19794 (* 'MR' *) then s <- parse_mru ;; parse_subs f size (cur + m_size s) (SubMru s :: acc)
        else ret (Some (rev acc))
      else ret (Some (rev acc))
  end.

Definition last_fru (l : list sub_t) : option fru_t :=
  fold_left (fun a s => match s with SubFru f => Some f | _ => a end) l None.
Definition last_pce (l : list sub_t) : option pce_t :=
  fold_left (fun a s => match s with SubPce f => Some f | _ => a end) l None.
Definition last_mru (l : list sub_t) : option mru_t :=
  fold_left (fun a s => match s with SubMru f => Some f | _ => a end) l None.

Definition callout_flat (c : callout_t) : N :=
  4 + N.of_nat (length (c_loc c))
  + match last_fru (c_subs c) with Some f => fru_flat f | None => 0 end
  + match last_pce (c_subs c) with Some p => p_size p | None => 0 end
  + match last_mru (c_subs c) with Some m => m_size m | None => 0 end.

Definition remaining : reader nat := fun s => Some (length s, s).

(* the substructure loop consumes at least four bytes per iteration: the remaining length bounds it *)
Definition callout_head : reader (N * N * N * bytes) :=
  sz <- get_int 1 ;; fl <- get_int 1 ;; pr <- get_int 1 ;; ll <- get_int 1 ;;
  loc <- (if 0 <? ll then get_memN ll else ret []) ;;
  ret (sz, fl, pr, loc).

Definition parse_callout : reader (option callout_t) :=
  hd <- callout_head ;;
  let '(sz, fl, pr, loc) := hd in
  n <- remaining ;;
  subs <- parse_subs (S n) sz (4 + N.of_nat (length loc)) [] ;;
  match subs with
  | None => ret None
  | Some ss => ret (Some {| c_size := sz; c_flags := fl; c_prio := pr; c_loc := loc; c_subs := ss |})
  end.

Fixpoint parse_callout_list (fuel : nat) (wlen4 cur : N) (acc : list callout_t) : reader (option (list callout_t)) :=
  match fuel with
  | O => ret None
  | S f =>
      if cur <? wlen4 then
        c <- parse_callout ;;
        match c with
        | None => ret None
        | Some c => parse_callout_list f wlen4 (cur + callout_flat c) (c :: acc)
        end
      else ret (Some (rev acc))
  end.

(* every callout adds at least 4 to the running length, so the declared word length bounds the number of callouts *)
Definition parse_callouts : reader (option callouts_t) :=
  id <- get_int 1 ;; fl <- get_int 1 ;; wl <- get_int 2 ;;
  l <- parse_callout_list (N.to_nat wl + 4) (wl * 4) 4 [] ;;
  match l with
  | None => ret None
  | Some l => ret (Some {| cs_id := id; cs_flags := fl; cs_wlen := wl; cs_list := l |})
  end.

(* None in the outer option = the fuel ran out (never happens: see the progress lemma) *)
Definition parse_src : reader (option src_t) :=
  v <- get_int 1 ;; fl <- get_int 1 ;; r1 <- get_int 1 ;; wc <- get_int 1 ;; r2 <- get_int 2 ;; sz <- get_int 2 ;;
  ws <- read_n 8 (get_int 4) ;; asc <- get_mem 32 ;;
  if 9 <? wc then fail           (* hexData[num] raises IndexError for a word count above 9 *)
  else if has fl HeaderFlags_additionalSections then
    cs <- parse_callouts ;;
    match cs with
    | None => ret None
    | Some cs => ret (Some {| s_version := v; s_flags := fl; s_res1 := r1; s_wcount := wc; s_res2 := r2; s_size := sz;
                              s_words := ws; s_ascii := asc; s_callouts := Some cs |})
    end
  else ret (Some {| s_version := v; s_flags := fl; s_res1 := r1; s_wcount := wc; s_res2 := r2; s_size := sz;
                    s_words := ws; s_ascii := asc; s_callouts := None |}).

Definition parse_eh : reader eh_t :=
  a <- get_mem 8 ;; b <- get_mem 12 ;; c <- get_mem 16 ;; d <- get_mem 16 ;; r <- get_int 4 ;;
  t <- get_timestamp ;; r1 <- get_int 1 ;; r2 <- get_int 1 ;; r3 <- get_int 1 ;; sl <- get_int 1 ;;
  sym <- (if sl =? 0 then ret [] else get_memN sl) ;;
  ret {| e_mtm := a; e_sn := b; e_fw := c; e_subfw := d; e_res4 := r; e_reftime := t; e_r1 := r1; e_r2 := r2; e_r3 := r3;
         e_symlen := sl; e_sym := sym |}.

Definition parse_mt : reader mt_t :=
  a <- get_mem 8 ;; b <- get_mem 12 ;; ret {| t_mtm := a; t_sn := b |}.

Definition parse_lp : reader lp_t :=
  p <- get_int 2 ;; nl <- get_int 1 ;; cnt <- get_int 1 ;; lid <- get_int 4 ;;
  nm <- (if nl =? 0 then ret [] else get_memN nl) ;;
  ts <- read_n (N.to_nat cnt) (get_int 2) ;;
  pad <- (if N.odd cnt then (x <- get_int 2 ;; ret (Some x)) else ret None) ;;
  ret {| l_part := p; l_namelen := nl; l_count := cnt; l_logid := lid; l_name := nm; l_targets := ts; l_pad := pad |}.

Definition parse_body (id len : N) : reader (option body_t) :=
  if (id =? SectionID_primarySRC) || (id =? SectionID_secondarySRC) then
    s <- parse_src ;; ret (option_map BSrc s)
  else if id =? SectionID_extendedUserHeader then e <- parse_eh ;; ret (Some (BEh e))
  else if id =? SectionID_failingMTMS then t <- parse_mt ;; ret (Some (BMt t))
  else if id =? SectionID_extUserData then
    c <- get_int 1 ;; r1 <- get_int 1 ;; r2 <- get_int 2 ;; d <- get_memN (len - 12) ;; ret (Some (BEd c r1 r2 d))
  else if id =? SectionID_userData then d <- get_memN (len - 8) ;; ret (Some (BUd d))
  else if id =? SectionID_impactedPart then l <- parse_lp ;; ret (Some (BLp l))
  else d <- get_memN (len - 8) ;; ret (Some (BOther d)).

Definition parse_section : reader (option section_t) :=
  hd <- parse_header ;;
  let '(id, len, h) := hd in
  b <- parse_body id len ;;
  ret (option_map (fun b => {| sec_id := id; sec_len := len; sec_hdr := h; sec_body := b |}) b).
