(* A small language of "stream reader" programs -- the statements the I/O-drawer decoders run against a pel.datastream.DataStream
   (check_range, get_int, get_mem, inc_index, comparisons, early `return False`) -- and its interpreter.

   harness/extract_readers.py translates the SOURCE TEXT of io_drawer/trace.py (TraceBufferHeader.read, TraceEntry.read) into
   programs of this language on every run (coq/Gen/Readers.v); Proofs/ReaderProgFacts.v proves that running the translated
   programs is the model's header_read / entry_read (Model/Trace.v) on every byte string.  Definitions only.

   Expressions are evaluated in Z (Python integers: a subtraction may go negative), widths below zero and reads past the end of
   the data are an error result (the assert of DataStream), distinct from the `return False` of the reader. *)
From Coq Require Import List NArith ZArith Bool.
From PV Require Import Base.Bytes.
Import ListNotations.
Open Scope Z_scope.

Definition name := list N.

Inductive ex :=
| XC (z : Z)                  (* integer literal or class constant *)
| XV (v : name)               (* self.<v> or a local, previously read / assigned *)
| XIdx                        (* stream.index *)
| XAdd (a b : ex)
| XSub (a b : ex)
| XMod (a b : ex)
| XAnd (a b : ex).            (* bitwise & *)

Inductive cd :=
| CNoRange (e : ex)           (* not stream.check_range(e) *)
| CGt (a b : ex)
| CLt (a b : ex)
| CEq (a b : ex)
| CNe (a b : ex)
| CAnd (a b : cd)
| COr (a b : cd)
| CTruthy (e : ex).           (* an integer used as a condition: true when non-zero *)

Inductive st :=
| TNop
| TSeq (a b : st)
| TInt (v : name) (w : ex)    (* v = stream.get_int(w) *)
| TMem (v : name) (w : ex)    (* v = stream.get_mem(w) *)
| TEmpty (v : name)           (* v = memoryview(b'') *)
| TSkip (w : ex)              (* stream.inc_index(w) *)
| TLet (v : name) (e : ex)    (* v = <expression> *)
| TAscii (v : name)           (* v = str(v, encoding='ascii', errors='ignore') *)
| TRstrip (v : name) (c : N)  (* v = v.rstrip(chr(c)) *)
| TIf (c : cd) (th el : st)
| TRet (b : bool)
| TContinue                   (* continue (in a loop body) *)
| TBreak                      (* break (in a loop body) *)
| TPure                       (* a statement that neither mentions the stream nor leaves the block (formatting, appending a line) *)
| TUnknown.                   (* a statement outside the fragment *)

Record sst := mkS { s_rest : bytes; s_idx : Z; s_ints : list (name * Z); s_mems : list (name * bytes) }.

Inductive res :=
| RFall (s : sst)             (* fell off the end *)
| RRet (b : bool) (s : sst)
| RCont (s : sst)             (* the loop body ended in `continue` *)
| RBrk (s : sst)              (* the loop body ended in `break` *)
| RErr.                       (* DataStream assertion / unknown statement / unbound name *)

Fixpoint geti (m : list (name * Z)) (v : name) : option Z :=
  match m with
  | [] => None
  | (k, x) :: t => if text_eqb k v then Some x else geti t v
  end.
Fixpoint getm (m : list (name * bytes)) (v : name) : option bytes :=
  match m with
  | [] => None
  | (k, x) :: t => if text_eqb k v then Some x else getm t v
  end.

Fixpoint ev (e : ex) (s : sst) : option Z :=
  match e with
  | XC z => Some z
  | XV v => geti (s_ints s) v
  | XIdx => Some (s_idx s)
  | XAdd a b => match ev a s, ev b s with Some x, Some y => Some (x + y) | _, _ => None end
  | XSub a b => match ev a s, ev b s with Some x, Some y => Some (x - y) | _, _ => None end
  | XAnd a b => match ev a s, ev b s with Some x, Some y => Some (Z.land x y) | _, _ => None end
  | XMod a b => match ev a s, ev b s with
                | Some x, Some y => if y =? 0 then None else Some (x mod y)
                | _, _ => None end
  end.

(* check_range(n) on the remaining bytes, n a natural number *)
Fixpoint has (n : nat) (d : bytes) : bool :=
  match n, d with
  | O, _ => true
  | S k, _ :: t => has k t
  | S _, [] => false
  end.

(* DataStream.check_range(count): raises unless 0 < count; then index + count <= len(data) *)
Definition in_range (z : Z) (s : sst) : bool := has (Z.to_nat z) (s_rest s).

Fixpoint evc (c : cd) (s : sst) : option bool :=
  match c with
  | CNoRange e => match ev e s with Some z => if 0 <? z then Some (negb (in_range z s)) else None | None => None end
  | CGt a b => match ev a s, ev b s with Some x, Some y => Some (y <? x) | _, _ => None end
  | CLt a b => match ev a s, ev b s with Some x, Some y => Some (x <? y) | _, _ => None end
  | CEq a b => match ev a s, ev b s with Some x, Some y => Some (x =? y) | _, _ => None end
  | CNe a b => match ev a s, ev b s with Some x, Some y => Some (negb (x =? y)) | _, _ => None end
  | CAnd a b => match evc a s with                     (* short-circuit, as Python's `and` *)
                | Some true => evc b s
                | other => other end
  | COr a b => match evc a s with                      (* short-circuit, as Python's `or` *)
               | Some false => evc b s
               | other => other end
  | CTruthy e => match ev e s with Some x => Some (negb (x =? 0)) | None => None end
  end.

Fixpoint run (p : st) (s : sst) : res :=
  match p with
  | TNop => RFall s
  | TSeq a b => match run a s with RFall s' => run b s' | r => r end
  | TInt v w =>
      match ev w s with
      | Some z =>
          if (0 <? z) && has (Z.to_nat z) (s_rest s)
          then RFall (mkS (skipn (Z.to_nat z) (s_rest s)) (s_idx s + z)
                          ((v, Z.of_N (be_val (firstn (Z.to_nat z) (s_rest s)) 0)) :: s_ints s) (s_mems s))
          else RErr
      | None => RErr
      end
  | TMem v w =>
      match ev w s with
      | Some z =>
          if (0 <? z) && has (Z.to_nat z) (s_rest s)
          then RFall (mkS (skipn (Z.to_nat z) (s_rest s)) (s_idx s + z) (s_ints s)
                          ((v, firstn (Z.to_nat z) (s_rest s)) :: s_mems s))
          else RErr
      | None => RErr
      end
  | TEmpty v => RFall (mkS (s_rest s) (s_idx s) (s_ints s) ((v, []) :: s_mems s))
  | TSkip w =>
      match ev w s with
      | Some z =>
          if (0 <? z) && has (Z.to_nat z) (s_rest s)
          then RFall (mkS (skipn (Z.to_nat z) (s_rest s)) (s_idx s + z) (s_ints s) (s_mems s))
          else RErr
      | None => RErr
      end
  | TLet v e => match ev e s with
                | Some z => RFall (mkS (s_rest s) (s_idx s) ((v, z) :: s_ints s) (s_mems s))
                | None => RErr end
  | TAscii v => match getm (s_mems s) v with
                | Some b => RFall (mkS (s_rest s) (s_idx s) (s_ints s) ((v, filter (fun c => N.ltb c 128) b) :: s_mems s))
                | None => RErr end
  | TRstrip v c => match getm (s_mems s) v with
                   | Some b => RFall (mkS (s_rest s) (s_idx s) (s_ints s) ((v, rstrip_by (fun x => N.eqb x c) b) :: s_mems s))
                   | None => RErr end
  | TIf c th el => match evc c s with
                   | Some true => run th s
                   | Some false => run el s
                   | None => RErr end
  | TRet b => RRet b s
  | TContinue => RCont s
  | TBreak => RBrk s
  | TPure => RFall s
  | TUnknown => RErr
  end.

Definition init (d : bytes) : sst := mkS d 0 [] [].

Definition int_of (s : sst) (v : name) : N := match geti (s_ints s) v with Some z => Z.to_N z | None => 0%N end.
Definition mem_of (s : sst) (v : name) : bytes := match getm (s_mems s) v with Some b => b | None => [] end.
