(* A small language of "stream reader" programs -- the statements the I/O-drawer decoders run against a pel.datastream.DataStream
   (check_range, get_int, get_mem, inc_index, comparisons, early `return False`) -- and its interpreter.

   harness/extract_readers.py translates the SOURCE TEXT of io_drawer/trace.py (TraceBufferHeader.read, TraceEntry.read) into
   programs of this language on every run (coq/Gen/Readers.v); Proofs/ReaderProgFacts.v proves that running the translated
   programs is the model's header_read / entry_read (Model/Trace.v) on every byte string.  Definitions only.

   Expressions are evaluated in Z (Python integers: a subtraction may go negative), widths below zero and reads past the end of
   the data are an error result (the assert of DataStream), distinct from the `return False` of the reader. *)
From Coq Require Import List NArith ZArith Bool.
From PV Require Import Base.Bytes.
Import ListNotations.
Open Scope Z_scope.

Definition name := list N.

Inductive ex :=
| XC (z : Z)                  (* integer literal or class constant *)
| XV (v : name)               (* self.<v> or a local, previously read / assigned *)
| XIdx                        (* stream.index *)
| XAdd (a b : ex)
| XSub (a b : ex)
| XMul (a b : ex)
| XMod (a b : ex)
| XAnd (a b : ex)             (* bitwise & *)
| XPeek2.                     (* get_value(stream.data, stream.index, 2): the next two bytes, unchecked (short at the end of the data) *)

Inductive cd :=
| CNoRange (e : ex)           (* not stream.check_range(e) *)
| CGt (a b : ex)
| CLt (a b : ex)
| CEq (a b : ex)
| CNe (a b : ex)
| CAnd (a b : cd)
| COr (a b : cd)
| CTruthy (e : ex).           (* an integer used as a condition: true when non-zero *)

Inductive st :=
| TNop
| TSeq (a b : st)
| TInt (v : name) (w : ex)    (* v = stream.get_int(w) *)
| TMem (v : name) (w : ex)    (* v = stream.get_mem(w) *)
| TEmpty (v : name)           (* v = memoryview(b'') *)
| TSkip (w : ex)              (* stream.inc_index(w) *)
| TLet (v : name) (e : ex)    (* v = <expression> *)
| TAscii (v : name)           (* v = str(v, encoding='ascii', errors='ignore') *)
| TRstrip (v : name) (c : N)  (* v = v.rstrip(chr(c)) *)
| TIf (c : cd) (th el : st)
| TRet (b : bool)
| TContinue                   (* continue (in a loop body) *)
| TBreak                      (* break (in a loop body) *)
| TPure                       (* a statement that neither mentions the stream nor leaves the block (formatting, appending a line) *)
| TForget (v : name)          (* such a statement assigns v: whatever was known of v and of its attributes v.x is forgotten *)
| TRepeat (count : ex) (body : st)          (* for _ in range(count): body *)
| TAppendPair (lst : name) (w1 w2 : ex)     (* x = C(stream.get_int(w1), stream.get_int(w2)); lst.append(x)   (C a plain record) *)
| TAppendInt (lst : name) (w : ex)          (* lst.append(stream.get_int(w)) *)
| TCall (v : name) (callee : name)          (* v = <callee class>(stream): handled by run1 below *)
| TUnknown.                   (* a statement outside the fragment *)

Record sst := mkS { s_rest : bytes; s_idx : Z; s_ints : list (name * Z); s_mems : list (name * bytes) }.

Inductive res :=
| RFall (s : sst)             (* fell off the end *)
| RRet (b : bool) (s : sst)
| RCont (s : sst)             (* the loop body ended in `continue` *)
| RBrk (s : sst)              (* the loop body ended in `break` *)
| RErr.                       (* DataStream assertion / unknown statement / unbound name *)

Fixpoint geti (m : list (name * Z)) (v : name) : option Z :=
  match m with
  | [] => None
  | (k, x) :: t => if text_eqb k v then Some x else geti t v
  end.
Fixpoint getm (m : list (name * bytes)) (v : name) : option bytes :=
  match m with
  | [] => None
  | (k, x) :: t => if text_eqb k v then Some x else getm t v
  end.

Fixpoint ev (e : ex) (s : sst) : option Z :=
  match e with
  | XC z => Some z
  | XV v => geti (s_ints s) v
  | XIdx => Some (s_idx s)
  | XAdd a b => match ev a s, ev b s with Some x, Some y => Some (x + y) | _, _ => None end
  | XSub a b => match ev a s, ev b s with Some x, Some y => Some (x - y) | _, _ => None end
  | XMul a b => match ev a s, ev b s with Some x, Some y => Some (x * y) | _, _ => None end
  | XAnd a b => match ev a s, ev b s with Some x, Some y => Some (Z.land x y) | _, _ => None end
  | XPeek2 => Some (Z.of_N (be_val (firstn 2 (s_rest s)) 0))
  | XMod a b => match ev a s, ev b s with
                | Some x, Some y => if y =? 0 then None else Some (x mod y)
                | _, _ => None end
  end.

(* check_range(n) on the remaining bytes, n a natural number *)
Fixpoint has (n : nat) (d : bytes) : bool :=
  match n, d with
  | O, _ => true
  | S k, _ :: t => has k t
  | S _, [] => false
  end.

(* DataStream.check_range(count): raises unless 0 < count; then index + count <= len(data) *)
Definition in_range (z : Z) (s : sst) : bool := has (Z.to_nat z) (s_rest s).

Fixpoint evc (c : cd) (s : sst) : option bool :=
  match c with
  | CNoRange e => match ev e s with Some z => if 0 <? z then Some (negb (in_range z s)) else None | None => None end
  | CGt a b => match ev a s, ev b s with Some x, Some y => Some (y <? x) | _, _ => None end
  | CLt a b => match ev a s, ev b s with Some x, Some y => Some (x <? y) | _, _ => None end
  | CEq a b => match ev a s, ev b s with Some x, Some y => Some (x =? y) | _, _ => None end
  | CNe a b => match ev a s, ev b s with Some x, Some y => Some (negb (x =? y)) | _, _ => None end
  | CAnd a b => match evc a s with                     (* short-circuit, as Python's `and` *)
                | Some true => evc b s
                | other => other end
  | COr a b => match evc a s with                      (* short-circuit, as Python's `or` *)
               | Some false => evc b s
               | other => other end
  | CTruthy e => match ev e s with Some x => Some (negb (x =? 0)) | None => None end
  end.

(* v itself, or an attribute path below it: v followed by a dot *)
Fixpoint names_var (v k : name) : bool :=
  match v, k with
  | [], [] => true
  | [], c :: _ => N.eqb c 46
  | x :: v', y :: k' => N.eqb x y && names_var v' k'
  | _ :: _, [] => false
  end.
Fixpoint forget {A} (v : name) (m : list (name * A)) : list (name * A) :=
  match m with
  | [] => []
  | (k, x) :: t => if names_var v k then forget v t else (k, x) :: forget v t
  end.

(* for _ in range(n): f *)
Fixpoint iter_body (f : sst -> res) (n : nat) (s0 : sst) : res :=
  match n with
  | O => RFall s0
  | S k => match f s0 with
           | RFall s' => iter_body f k s'
           | RCont s' => iter_body f k s'
           | RBrk s' => RFall s'
           | r => r
           end
  end.

Fixpoint run (p : st) (s : sst) : res :=
  match p with
  | TNop => RFall s
  | TSeq a b => match run a s with RFall s' => run b s' | r => r end
  | TInt v w =>
      match ev w s with
      | Some z =>
          if (0 <? z) && has (Z.to_nat z) (s_rest s)
          then RFall (mkS (skipn (Z.to_nat z) (s_rest s)) (s_idx s + z)
                          ((v, Z.of_N (be_val (firstn (Z.to_nat z) (s_rest s)) 0)) :: s_ints s) (s_mems s))
          else RErr
      | None => RErr
      end
  | TMem v w =>
      match ev w s with
      | Some z =>
          if (0 <? z) && has (Z.to_nat z) (s_rest s)
          then RFall (mkS (skipn (Z.to_nat z) (s_rest s)) (s_idx s + z) (s_ints s)
                          ((v, firstn (Z.to_nat z) (s_rest s)) :: s_mems s))
          else RErr
      | None => RErr
      end
  | TEmpty v => RFall (mkS (s_rest s) (s_idx s) (s_ints s) ((v, []) :: s_mems s))
  | TSkip w =>
      match ev w s with
      | Some z =>
          if (0 <? z) && has (Z.to_nat z) (s_rest s)
          then RFall (mkS (skipn (Z.to_nat z) (s_rest s)) (s_idx s + z) (s_ints s) (s_mems s))
          else RErr
      | None => RErr
      end
  | TLet v e => match ev e s with
                | Some z => RFall (mkS (s_rest s) (s_idx s) ((v, z) :: s_ints s) (s_mems s))
                | None => RErr end
  | TAscii v => match getm (s_mems s) v with
                | Some b => RFall (mkS (s_rest s) (s_idx s) (s_ints s) ((v, filter (fun c => N.ltb c 128) b) :: s_mems s))
                | None => RErr end
  | TRstrip v c => match getm (s_mems s) v with
                   | Some b => RFall (mkS (s_rest s) (s_idx s) (s_ints s) ((v, rstrip_by (fun x => N.eqb x c) b) :: s_mems s))
                   | None => RErr end
  | TIf c th el => match evc c s with
                   | Some true => run th s
                   | Some false => run el s
                   | None => RErr end
  | TRet b => RRet b s
  | TContinue => RCont s
  | TBreak => RBrk s
  | TPure => RFall s
  | TForget v => RFall (mkS (s_rest s) (s_idx s) (forget v (s_ints s)) (forget v (s_mems s)))
  | TRepeat e body =>
      match ev e s with
      | Some z =>
          iter_body (run body) (Z.to_nat z) s
      | None => RErr
      end
  | TAppendPair lst w1 w2 =>
      match ev w1 s, ev w2 s with
      | Some a, Some b =>
          if (0 <? a) && (0 <? b) && has (Z.to_nat a + Z.to_nat b) (s_rest s)
          then RFall (mkS (skipn (Z.to_nat a + Z.to_nat b) (s_rest s)) (s_idx s + a + b)
                          ((lst ++ [46; 49]%N, Z.of_N (be_val (firstn (Z.to_nat b) (skipn (Z.to_nat a) (s_rest s))) 0))
                           :: (lst ++ [46; 48]%N, Z.of_N (be_val (firstn (Z.to_nat a) (s_rest s)) 0)) :: s_ints s) (s_mems s))
          else RErr
      | _, _ => RErr
      end
  | TAppendInt lst w =>
      match ev w s with
      | Some z =>
          if (0 <? z) && has (Z.to_nat z) (s_rest s)
          then RFall (mkS (skipn (Z.to_nat z) (s_rest s)) (s_idx s + z)
                          ((lst ++ [46; 48]%N, Z.of_N (be_val (firstn (Z.to_nat z) (s_rest s)) 0)) :: s_ints s) (s_mems s))
          else RErr
      | None => RErr
      end
  | TCall _ _ => RErr
  | TUnknown => RErr
  end.

Definition init (d : bytes) : sst := mkS d 0 [] [].

(* ---- one level of constructor calls:  v = C(stream)  runs C's translated __init__ (itself without calls) on the same stream with
   fresh variables; afterwards the attributes self.x the constructor has assigned are visible to the caller as v.x.  A constructor
   that left through an early `return` still yields its object: the marker v.__early is 1 then, 0 otherwise.  The callee must
   not look at stream.index (it runs on a relative index). ---- *)
Fixpoint uses_idx_e (e : ex) : bool :=
  match e with
  | XIdx => true
  | XAdd a b | XSub a b | XMul a b | XMod a b | XAnd a b => uses_idx_e a || uses_idx_e b
  | _ => false
  end.
Fixpoint uses_idx_c (c : cd) : bool :=
  match c with
  | CNoRange e | CTruthy e => uses_idx_e e
  | CGt a b | CLt a b | CEq a b | CNe a b => uses_idx_e a || uses_idx_e b
  | CAnd a b | COr a b => uses_idx_c a || uses_idx_c b
  end.
Fixpoint uses_idx (p : st) : bool :=
  match p with
  | TSeq a b => uses_idx a || uses_idx b
  | TInt _ w | TMem _ w | TSkip w => uses_idx_e w
  | TLet _ e => uses_idx_e e
  | TIf c th el => uses_idx_c c || uses_idx th || uses_idx el
  | TRepeat e b => uses_idx_e e || uses_idx b
  | TAppendPair _ a b => uses_idx_e a || uses_idx_e b
  | TAppendInt _ w => uses_idx_e w
  | _ => false
  end.

Definition self_dot : name := [115; 101; 108; 102; 46]%N.           (* "self." *)
Fixpoint is_prefix (a b : name) : bool :=
  match a, b with
  | [], _ => true
  | x :: a', y :: b' => N.eqb x y && is_prefix a' b'
  | _ :: _, [] => false
  end.
(* self.x of the callee is v.x of the caller; the callee's locals are dropped *)
Fixpoint rename_keys {A} (v : name) (m : list (name * A)) : list (name * A) :=
  match m with
  | [] => []
  | (k, x) :: t => if is_prefix self_dot k then (v ++ skipn 4 k, x) :: rename_keys v t else rename_keys v t
  end.
Definition early_key (v : name) : name := v ++ [46; 95; 95; 101; 97; 114; 108; 121]%N.      (* v ++ ".__early" *)

Definition after_call (v : name) (early : Z) (s s' : sst) : sst :=
  mkS (s_rest s') (s_idx s + s_idx s') ((early_key v, early) :: rename_keys v (s_ints s') ++ s_ints s)
      (rename_keys v (s_mems s') ++ s_mems s).

Fixpoint lookup_prog (pe : list (name * st)) (c : name) : option st :=
  match pe with
  | [] => None
  | (k, q) :: t => if text_eqb k c then Some q else lookup_prog t c
  end.

Fixpoint run1 (pe : list (name * st)) (p : st) (s : sst) : res :=
  match p with
  | TSeq a b => match run1 pe a s with RFall s' => run1 pe b s' | r => r end
  | TIf c th el => match evc c s with
                   | Some true => run1 pe th s
                   | Some false => run1 pe el s
                   | None => RErr end
  | TCall v c =>
      match lookup_prog pe c with
      | Some q =>
          if uses_idx q then RErr
          else match run q (mkS (s_rest s) 0 [] []) with
               | RFall s' => RFall (after_call v 0 s s')
               | RRet _ s' => RFall (after_call v 1 s s')
               | _ => RErr
               end
      | None => RErr
      end
  | other => run other s
  end.

Definition int_of (s : sst) (v : name) : N := match geti (s_ints s) v with Some z => Z.to_N z | None => 0%N end.
Definition mem_of (s : sst) (v : name) : bytes := match getm (s_mems s) v with Some b => b | None => [] end.
