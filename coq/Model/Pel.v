(* Model of peltool.parsePEL: headers, selection, section loop, buildOutput. *)
From Coq Require Import List NArith ZArith Bool Arith.
From PV Require Import Base.Bytes Base.Lit Base.Json Base.Utf8 Base.Reader Base.PelTypes
                       Model.Hexdump Model.Parse Model.Render Gen.Tables.
Import ListNotations.
Open Scope N_scope.

Inductive outcome :=
| OkDoc (eid : text) (doc : list (text * json))
| Filtered            (* considerPEL said no: ("", "") *)
| BadPH               (* first section is not PH: message on stderr, ("", "") or exit 1 *)
| BadUH
| Reject              (* an exception escapes parsePEL *)
| OutOfFuel.          (* never (progress lemma) *)

(* read and render [n] optional sections *)
Fixpoint decode_sections (e : env) (c : config) (creator : text) (n : nat) (data : bytes)
  : option (option (list (text * list (text * json)))) :=
  match n with
  | O => Some (Some [])
  | S k =>
      match parse_section data with
      | None => Some None
      | Some (None, _) => None
      | Some (Some s, rest) =>
          match render_section e c creator s with
          | None => Some None
          | Some r =>
              match decode_sections e c creator k rest with
              | Some (Some t) => Some (Some (r :: t))
              | x => x
              end
          end
      end
  end.

Definition decode (e : env) (c : config) (consider : uh_t -> bool) (data : bytes) : outcome :=
  match parse_header data with
  | None => Reject
  | Some ((id, len, h), rest) =>
    if negb (id =? SectionID_privateHeader) then BadPH else
    match parse_ph_body len h rest with
    | None => Reject
    | Some (ph, rest) =>
      match render_ph e ph with
      | None => Reject
      | Some (creator, phj) =>
        match parse_header rest with
        | None => Reject
        | Some ((id2, len2, h2), rest) =>
          if negb (id2 =? SectionID_userHeader) then BadUH else
          match parse_uh_body len2 h2 rest with
          | None => Reject
          | Some (uh, rest) =>
            let uhj := render_uh e creator uh in
            if negb (consider uh) then Filtered else
            match decode_sections e c creator (N.to_nat (ph_count ph) - 2) rest with
            | None => OutOfFuel
            | Some None => Reject
            | Some (Some secs) =>
                OkDoc (hexU 8 (ph_eid ph))
                      (build_output [(section_name id, JObj phj); (section_name id2, JObj uhj)] secs)
            end
          end
        end
      end
    end
  end.
