(* Model of peltool.parsePEL: headers, selection, section loop, buildOutput. *)
From Coq Require Import List NArith ZArith Bool Arith.
From PV Require Import Base.Bytes Base.Lit Base.Json Base.Utf8 Base.Reader Base.PelTypes
                       Model.Hexdump Model.Parse Model.Render Gen.Tables.
Import ListNotations.
Open Scope N_scope.

Inductive outcome :=
| OkDoc (eid : text) (doc : list (text * json))
| Filtered            (* considerPEL said no: ("", "") *)
| BadPH               (* first section is not PH: message on stderr, ("", "") or exit 1 *)
| BadUH
| Reject              (* an exception escapes parsePEL *)
| OutOfFuel.          (* never (progress lemma) *)

(* read and render [n] optional sections *)
Fixpoint decode_sections (e : env) (c : config) (creator : text) (n : nat) (data : bytes)
  : option (option (list (text * list (text * json)))) :=
  match n with
  | O => Some (Some [])
  | S k =>
      match parse_section data with
      | None => Some None
      | Some (None, _) => None
      | Some (Some s, rest) =>
          match render_section e c creator s with
          | None => Some None
          | Some r =>
              match decode_sections e c creator k rest with
              | Some (Some t) => Some (Some (r :: t))
              | x => x
              end
          end
      end
  end.

Definition decode (e : env) (c : config) (consider : uh_t -> bool) (data : bytes) : outcome :=
  match parse_header data with
  | None => Reject
  | Some ((id, len, h), rest) =>
    if negb (id =? SectionID_privateHeader) then BadPH else
    match parse_ph_body len h rest with
    | None => Reject
    | Some (ph, rest) =>
      match render_ph e ph with
      | None => Reject
      | Some (creator, phj) =>
        match parse_header rest with
        | None => Reject
        | Some ((id2, len2, h2), rest) =>
          if negb (id2 =? SectionID_userHeader) then BadUH else
          match parse_uh_body len2 h2 rest with
          | None => Reject
          | Some (uh, rest) =>
            let uhj := render_uh e creator uh in
            if negb (consider uh) then Filtered else
            match decode_sections e c creator (N.to_nat (ph_count ph) - 2) rest with
            | None => OutOfFuel
            | Some None => Reject
            | Some (Some secs) =>
                OkDoc (hexU 8 (ph_eid ph))
                      (build_output [(section_name id, JObj phj); (section_name id2, JObj uhj)] secs)
            end
          end
        end
      end
    end
  end.

(* ---- the partial decoders of the directory modes ---- *)
Inductive hdrs :=
| HExc | HBadPH | HBadUH
| HOk (ph : ph_t) (creator : text) (phj : list (text * json)) (uh : uh_t) (uhj : list (text * json)) (rest : bytes).

(* generatePH + generateUH *)
Definition decode_headers (e : env) (data : bytes) : hdrs :=
  match parse_header data with
  | None => HExc
  | Some ((id, len, h), rest) =>
    if negb (id =? SectionID_privateHeader) then HBadPH else
    match parse_ph_body len h rest with
    | None => HExc
    | Some (ph, rest) =>
      match render_ph e ph with
      | None => HExc
      | Some (creator, phj) =>
        match parse_header rest with
        | None => HExc
        | Some ((id2, len2, h2), rest) =>
          if negb (id2 =? SectionID_userHeader) then HBadUH else
          match parse_uh_body len2 h2 rest with
          | None => HExc
          | Some (uh, rest) => HOk ph creator phj uh (render_uh e creator uh) rest
          end
        end
      end
    end
  end.

Inductive part (A : Type) := PExc | PSkip | PGot (a : A).
Arguments PExc {A}. Arguments PSkip {A}. Arguments PGot {A} a.

(* printPELCount: headers and selection only *)
Definition decode_count (e : env) (consider : uh_t -> bool) (data : bytes) : part unit :=
  match decode_headers e data with
  | HExc => PExc
  | HBadPH | HBadUH => PSkip
  | HOk _ _ _ uh _ _ => if consider uh then PGot tt else PSkip
  end.

(* parsePELSummary: sections are decoded (and discarded) up to and including the primary SRC *)
Fixpoint summary_src (e : env) (c : config) (creator : text) (n : nat) (data : bytes) : option (option (option text)) :=
  (* None = out of fuel; Some None = an exception; Some (Some r) = reference code of the primary SRC, if one was met *)
  match n with
  | O => Some (Some None)
  | S k =>
      match parse_section data with
      | None => Some None
      | Some (None, _) => None
      | Some (Some s, rest) =>
          match render_section e c creator s with
          | None => Some None
          | Some (_, o) =>
              if sec_id s =? SectionID_primarySRC then
                match obj_get o (L "Reference Code") with
                | Some (JStr r) => Some (Some (Some r))
                | _ => Some None
                end
              else summary_src e c creator k rest
          end
      end
  end.

Definition jfield (o : list (text * json)) (k : text) : json := match obj_get o k with Some v => v | None => JNull end.

Definition decode_summary (e : env) (c : config) (consider : uh_t -> bool) (data : bytes) : part (text * json) :=
  match decode_headers e data with
  | HExc => PExc
  | HBadPH | HBadUH => PSkip
  | HOk ph creator phj uh uhj rest =>
      if negb (consider uh) then PSkip else
      match summary_src e c creator (N.to_nat (ph_count ph) - 2) rest with
      | None | Some None => PExc
      | Some (Some src) =>
          PGot (L "0x" ++ hexU 8 (ph_eid ph),
                JObj ((match src with Some r => [(L "SRC", JStr r)] | None => [] end) ++
                      [(L "PLID", jfield phj (L "Platform Log Id"));
                       (L "CreatorID", jfield phj (L "Creator Subsystem"));
                       (L "Subsystem", jfield uhj (L "Subsystem"));
                       (L "Commit Time", jfield phj (L "Committed at"));
                       (L "Sev", jfield uhj (L "Event Severity"));
                       (L "CompID", jfield phj (L "Created by"))]))
      end
  end.

Definition decode_full (e : env) (c : config) (consider : uh_t -> bool) (data : bytes) : part (text * json) :=
  match decode e c consider data with
  | OkDoc eid doc => PGot (eid, JObj doc)
  | Filtered | BadPH | BadUH => PSkip
  | Reject | OutOfFuel => PExc
  end.

(* generatePH alone, as --bmc-id uses it: the BMC event log id, None when the header does not decode *)
Definition decode_obmc (e : env) (data : bytes) : option N :=
  match parse_header data with
  | None => None
  | Some ((id, len, h), rest) =>
    if negb (id =? SectionID_privateHeader) then None else
    match parse_ph_body len h rest with
    | None => None
    | Some (ph, _) => match render_ph e ph with Some _ => Some (ph_obmc ph) | None => None end
    end
  end.
