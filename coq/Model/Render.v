(* Model of the display half of modules/pel/peltool (the toJSON bodies after the reads).
   Mirrors the code of the repaired tree; tables come from Gen (regenerated from /repo).  No proofs. *)
From Coq Require Import List NArith ZArith Bool Arith.
From PV Require Import Base.Bytes Base.Lit Base.Json Base.Utf8 Base.PelTypes Model.Hexdump Model.Parse Gen.Tables.
From PV Require Import Model.JsonLoads.
Import ListNotations.
Open Scope N_scope.

(* ---- environment: everything that is not in /repo or not bytes ---- *)
Inductive plugin_result :=
| PRetJ (j : json)            (* returned json.dumps(j) *)
| PRetT (t : text)            (* returned this text *)
| PRetEmpty                   (* returned '' *)
| PNone                       (* returned None *)
| PNonStr                     (* returned something json.loads raises TypeError on *)
| PRaise (msg : text)         (* raised an ordinary exception with this str() *)
| PRaiseImport (msg : text).  (* raised ImportError from inside the call *)

Inductive import_outcome (F : Type) := INotFound | IBroken (msg : text) | IFound (f : F).
Arguments INotFound {F}. Arguments IBroken {F} msg. Arguments IFound {F} f.

Record env := {
  registry : list reg_pel;
  comp_name : text -> text -> option text;                                   (* creator id, "%04X" component -> registry name *)
  ud_import : text -> import_outcome (N -> N -> bytes -> plugin_result);     (* module name -> parseUDToJson(subtype, version, data) *)
  src_import : text -> import_outcome (text -> list text -> plugin_result);  (* module name -> parseSRCToJson(refcode, w2..w9) *)
  co_import : text -> import_outcome (text -> plugin_result) }.              (* module name -> getMaintProcDesc(procedure) *)

Record config := { allow_plugins : bool }.

(* ---- helpers ---- *)
Definition jn (n : N) : json := JNum (Z.of_N n).
Definition js (s : text) : json := JStr s.

Fixpoint lookup_n (tbl : list (N * text)) (k : N) : option text :=
  match tbl with [] => None | (k', v) :: t => if k =? k' then Some v else lookup_n t k end.
Fixpoint lookup_t {V} (tbl : list (text * V)) (k : text) : option V :=
  match tbl with [] => None | (k', v) :: t => if text_eqb k k' then Some v else lookup_t t k end.
Definition get_n (tbl : list (N * text)) (k : N) (dflt : text) : text :=
  match lookup_n tbl k with Some v => v | None => dflt end.

Definition hex2L (b : N) : text := hex_fixed hexdigL 2 b.
Definition nth_b (l : bytes) (i : nat) : N := nth i l 0.

(* month/day/year hour:min:sec from the hex digits of the stored bytes *)
Definition timestamp (t : bytes) : text :=
  hex2L (nth_b t 2) ++ L "/" ++ hex2L (nth_b t 3) ++ L "/" ++ hex2L (nth_b t 0) ++ hex2L (nth_b t 1) ++ L " "
  ++ hex2L (nth_b t 4) ++ L ":" ++ hex2L (nth_b t 5) ++ L ":" ++ hex2L (nth_b t 6).

Definition creator_name (creator : text) : option text := lookup_t creatorIDs creator.

Definition display_comp (e : env) (comp : N) (creator : text) : text :=
  if match creator_name creator with Some n => text_eqb n (L "PHYP") | None => false end then
    let first := N.land (N.shiftr comp 8) 255 in
    let second := N.land comp 255 in
    if negb (first =? 0) && negb (second =? 0) then [first; second] else hexU 4 comp
  else
    match comp_name e creator (hexU 4 comp) with Some n => n | None => hexU 4 comp end.

Definition base_fields (e : env) (h : shdr) (creator : text) (key : text) : list (text * json) :=
  [(L "Section Version", jn (h_ver h)); (L "Sub-section type", jn (h_sub h)); (key, js (display_comp e (h_comp h) creator))].

Definition x0 (w : nat) (v : N) : text := L "0x" ++ hexU w v.

(* ---- Private Header / User Header ---- *)
Definition render_ph (e : env) (p : ph_t) : option (text * list (text * json)) :=
  match utf8_decode [ph_creator p] with
  | None => None
  | Some creator =>
      Some (creator,
        base_fields e (ph_hdr p) creator (L "Created by") ++
        [(L "Created at", js (timestamp (ph_create p)));
         (L "Committed at", js (timestamp (ph_commit p)));
         (L "Creator Subsystem", js (match creator_name creator with Some n => n | None => L "Unknown" end));
         (L "CSSVER", js (x0 2 (ph_cver p)));
         (L "Platform Log Id", js (x0 8 (ph_plid p)));
         (L "Entry Id", js (x0 8 (ph_eid p)));
         (L "BMC Event Log Id", js (dec (ph_obmc p)))])
  end.

Definition action_flags (flags : N) : list text :=
  map snd (filter (fun kv => negb (N.land (fst kv) flags =? 0)) actionFlagsValues).

Definition render_uh (e : env) (creator : text) (u : uh_t) : list (text * json) :=
  base_fields e (uh_hdr u) creator (L "Log Committed by") ++
  [(L "Subsystem", js (get_n subsystemValues (uh_subsys u) (L "Invalid")));
   (L "Event Scope", js (get_n eventScopeValues (uh_scope u) (L "Invalid")));
   (L "Event Severity", js (get_n severityValues (uh_sev u) (L "Invalid")));
   (L "Event Type", js (get_n eventTypeValues (uh_etype u) (L "Invalid")));
   (L "Action Flags", jstrs (action_flags (uh_flags u)));
   (L "Host Transmission", js (get_n transmissionStates (N.land (uh_states u) 255) (L "Unknown")));
   (L "HMC Transmission", js (get_n transmissionStates (N.shiftr (N.land (uh_states u) 65280) 8) (L "Unknown")))].

(* ---- EH / MT / LP ---- *)
Definition dec_strip (b : bytes) : option text := option_map strip_nul (utf8_decode b).

Definition render_eh (e : env) (h : shdr) (creator : text) (x : eh_t) : option (list (text * json)) :=
  match utf8_decode (e_mtm x), utf8_decode (e_sn x), utf8_decode (e_fw x), utf8_decode (e_subfw x), utf8_decode (e_sym x) with
  | Some mtm, Some sn, Some fw, Some sfw, Some sym =>
      Some (base_fields e h creator (L "Created by") ++
        [(L "Reporting Machine Type", js (strip_nul mtm));
         (L "Reporting Serial Number", js (strip_nul sn));
         (L "FW Released Ver", js (strip_nul fw));
         (L "FW SubSys Version", js (strip_nul sfw));
         (L "Common Ref Time", js (timestamp (e_reftime x)));
         (L "Symptom Id Len", js (dec (e_symlen x)));
         (L "Symptom Id", js (strip_nul sym))])
  | _, _, _, _, _ => None
  end.

Definition render_mt (e : env) (h : shdr) (creator : text) (x : mt_t) : option (list (text * json)) :=
  match utf8_decode (t_mtm x), utf8_decode (t_sn x) with
  | Some a, Some b =>
      Some (base_fields e h creator (L "Created by") ++
        [(L "Machine Type Model", js (strip_nul a)); (L "Serial Number", js (strip_nul b))])
  | _, _ => None
  end.

Definition render_lp (e : env) (h : shdr) (creator : text) (x : lp_t) : option (list (text * json)) :=
  match utf8_decode (l_name x) with
  | None => None
  | Some nm =>
      Some (base_fields e h creator (L "Created by") ++
        [(L "Primary Partition ID", js (x0 4 (l_part x)));
         (L "Length of LP Name", js (x0 2 (l_namelen x)));
         (L "Target LP Count", js (x0 2 (l_count x)));
         (L "Logical Partition Log ID", js (x0 8 (l_logid x)));
         (L "Primary Partition Name", js (rstrip_nul nm))] ++
        (if l_count x =? 0 then [] else [(L "Target LP", jstrs (map (x0 4) (l_targets x)))]))
  end.

(* ---- user data ---- *)
(* what UserData.toJSON does with the string the parser produced *)
Inductive ud_value :=
| UVJson (j : json)                 (* a string known to be json.dumps(j) *)
| UVText (t : text)                 (* an arbitrary string: json.loads decides *)
| UVReject.

Definition ud_name (creator : text) (comp : N) : text :=
  map lower_c (map lower_c creator ++ hexU 4 comp).
Definition ud_module (creator : text) (comp : N) : text :=
  L "udparsers." ++ ud_name creator comp ++ L "." ++ ud_name creator comp.

Definition data_obj (d : bytes) : list (text * json) := [(L "Data", jstrs (hexdump d))].

Definition none_error (creator : text) (comp sub ver : N) : text :=
  L "Parser returned a value of None for creatorID=" ++ creator ++ L " compID=" ++ x0 4 comp
  ++ L " subType=" ++ dec sub ++ L " version=" ++ dec ver.
Definition raise_error (creator : text) (comp sub ver : N) (msg : text) : text :=
  L "Failed parsing user data for creator=" ++ creator ++ L " compID=" ++ x0 4 comp
  ++ L " subType=" ++ x0 1 sub ++ L " version=" ++ dec ver ++ L " Exception=" ++ msg.

Definition printable_or_dot (c : N) : N := if (c <? 32) || (126 <? c) then 46 else c.

(* built-in text: split on '\n' only, a final empty line is dropped *)
Fixpoint text_lines (s : text) (cur : text) : list text :=
  match s with
  | [] => match cur with [] => [] | _ => [rev cur] end
  | c :: t => if c =? 10 then rev cur :: text_lines t [] else text_lines t (printable_or_dot c :: cur)
  end.

Definition builtin_value (sub : N) (d : bytes) : ud_value :=
  if sub =? UserDataFormat_json then
    match utf8_decode d with Some t => UVText (rstrip_nul (strip_ws t)) | None => UVReject end
  else if sub =? UserDataFormat_cbor then UVJson (jstrs (hexdump d))
  else if sub =? UserDataFormat_text then
    match utf8_decode d with Some t => UVJson (jstrs (text_lines (rstrip_nul (strip_ws t)) [])) | None => UVReject end
  else UVJson (jstrs (hexdump d)).

Definition custom_value (e : env) (creator : text) (comp sub ver : N) (d : bytes) : ud_value :=
  match ud_import e (ud_module creator comp) with
  | INotFound => UVJson (jstrs (hexdump d))
  | IBroken msg => UVJson (JObj ((L "Error", js (raise_error creator comp sub ver msg)) :: data_obj d))
  | IFound f =>
      match f sub ver d with
      | PRetJ j => UVJson j
      | PRetT t => UVText t
      | PRetEmpty => UVText []
      | PNone => UVJson (JObj ((L "Error", js (none_error creator comp sub ver)) :: data_obj d))
      | PNonStr => UVReject
      | PRaise msg | PRaiseImport msg => UVJson (JObj ((L "Error", js (raise_error creator comp sub ver msg)) :: data_obj d))
      end
  end.

Definition is_bmc (creator : text) : bool :=
  match creator_name creator with Some n => text_eqb n (L "BMC") | None => false end.

Definition ud_value_of (e : env) (c : config) (creator : text) (comp sub ver : N) (d : bytes) : ud_value :=
  if is_bmc creator && (comp =? 8192) then builtin_value sub d
  else if allow_plugins c then custom_value e creator comp sub ver d
  else UVJson (JObj (data_obj d)).

(* j is a dict -> out.update(j), otherwise out['Data'] = j.  UVText goes through json.loads (Model/JsonLoads.v); text that
   is not JSON (or holds an integer literal over the digit limit) is hex dumped.  Only where the model of json.loads does
   not decide (a float in the value, nesting deeper than depth_limit) the text is handed to the harness behind the marker
   "@loads", which applies Python's own json.loads, with the hex dump of the text as "@fallback" *)
Definition merge_value (base : list (text * json)) (v : ud_value) : option (list (text * json)) :=
  match v with
  | UVReject => None
  | UVJson (JObj l) => Some (obj_update base l)
  | UVJson j => Some (obj_set base (L "Data") j)
  | UVText t =>
      match loads t with
      | LOk (JObj l) => Some (obj_update base l)
      | LOk j => Some (obj_set base (L "Data") j)
      | LError =>
          match utf8_encode t with
          | Some b => Some (obj_set base (L "Data") (jstrs (hexdump b)))
          | None => None
          end
      | LBeyond =>
          match utf8_encode t with
          | Some b => Some (base ++ [(L "@loads", js t); (L "@fallback", jstrs (hexdump b))])
          | None => None
          end
      end
  end.

Definition render_ud (e : env) (c : config) (h : shdr) (creator : text) (d : bytes) : option (list (text * json)) :=
  merge_value (base_fields e h creator (L "Created by")) (ud_value_of e c creator (h_comp h) (h_sub h) (h_ver h) d).

Definition render_other (h : shdr) (d : bytes) : list (text * json) :=
  [(L "Section Version", jn (h_ver h)); (L "Sub-section type", jn (h_sub h)); (L "Created by", js (x0 2 (h_comp h)));
   (L "Data", jstrs (hexdump d))].

(* ---- SRC ---- *)
Definition tf (b : bool) : json := js (if b then L "True" else L "False").

Definition co_module (creator : text) : text :=
  let n := map lower_c creator ++ L "callouts" in L "calloutparsers." ++ n ++ L "." ++ n.
Definition src_module (creator : text) : text :=
  let n := map lower_c creator ++ L "src" in L "srcparsers." ++ n ++ L "." ++ n.

Definition proc_desc (e : env) (creator : text) (proc : text) : list (text * json) :=
  match co_import e (co_module creator) with
  | IFound f =>
      match f proc with
      | PRetJ j => [(L "Description", j)]
      | PRetT t =>
          match loads t with
          | LOk j => [(L "Description", j)]
          | LError => []
          | LBeyond => [(L "@loads_opt:Description", js t)]
          end
      | _ => []
      end
  | _ => []
  end.

Definition mru_ids (m : mru_t) : text := join (L ",") (map (fun pi => hexU 8 (snd pi)) (m_list m)).

Definition render_callout (e : env) (c : config) (creator : text) (co : callout_t) : option (list (text * json)) :=
  match utf8_decode (c_loc co) with
  | None => None
  | Some loc0 =>
    let loc := strip_nul loc0 in
    let fru_part :=
      match last_fru (c_subs co) with
      | None => Some []
      | Some f =>
          match utf8_decode (f_pn f), utf8_decode (f_ccin f), utf8_decode (f_sn f) with
          | Some pn, Some cc, Some sn =>
              Some ([(L "FRU Type", js (get_n failingComponentType (N.land (f_flags f) 240) (L "Invalid")));
                     (L "Priority", js (get_n calloutPriorityValues (c_prio co) (L "Invalid")))] ++
                    (if Nat.ltb 0 (length loc) then [(L "Location Code", js loc)] else []) ++
                    (if has (f_flags f) Flags_pnSupplied then [(L "Part Number", js (strip_nul pn))] else []) ++
                    (if has (f_flags f) Flags_maintProcSupplied then
                       (L "Procedure", js (strip_nul pn)) :: (if allow_plugins c then proc_desc e creator (strip_nul pn) else [])
                     else []) ++
                    (if has (f_flags f) Flags_ccinSupplied then [(L "CCIN", js (strip_nul cc))] else []) ++
                    (if has (f_flags f) Flags_snSupplied then [(L "Serial Number", js (strip_nul sn))] else []))
          | _, _, _ => None
          end
      end in
    let pce_part :=
      match last_pce (c_subs co) with
      | None => Some []
      | Some p =>
          match utf8_decode (p_mtm p), utf8_decode (p_sn p), utf8_decode (p_name p) with
          | Some mt, Some sn, Some nm =>
              Some ((if Nat.ltb 0 (length (strip_nul mt)) then [(L "PCE MTMS", js (strip_nul mt ++ L "_" ++ strip_nul sn))] else []) ++
                    (if Nat.ltb 0 (length (strip_nul nm)) then [(L "PCE Name", js (strip_nul nm))] else []))
          | _, _, _ => None
          end
      end in
    let mru_part := match last_mru (c_subs co) with None => [] | Some m => [(L "MRU Id", js (mru_ids m))] end in
    match fru_part, pce_part with
    | Some a, Some b => Some (a ++ b ++ mru_part)      (* distinct literal keys, each assigned at most once *)
    | _, _ => None
    end
  end.

Fixpoint all_some {A} (l : list (option A)) : option (list A) :=
  match l with
  | [] => Some []
  | Some a :: t => option_map (cons a) (all_some t)
  | None :: _ => None
  end.

(* every substructure that was read is decoded, also one that is later overwritten by another of its kind *)
Definition sub_decodes (s : sub_t) : bool :=
  match s with
  | SubFru f => match utf8_decode (f_pn f), utf8_decode (f_ccin f), utf8_decode (f_sn f) with Some _, Some _, Some _ => true | _, _, _ => false end
  | SubPce p => match utf8_decode (p_mtm p), utf8_decode (p_sn p), utf8_decode (p_name p) with Some _, Some _, Some _ => true | _, _, _ => false end
  | SubMru _ => true
  end.

Definition render_callouts (e : env) (c : config) (creator : text) (cs : callouts_t) : option (list (text * json)) :=
  if forallb (fun co => forallb sub_decodes (c_subs co)) (cs_list cs) then
    match all_some (map (render_callout e c creator) (cs_list cs)) with
    | Some l => Some [(L "Callout Count", jn (N.of_nat (length (cs_list cs)))); (L "Callouts", JArr (map JObj l))]
    | None => None
    end
  else None.

Definition src_hexwords (s : src_t) : list text :=
  map (fun w => hexU 8 w) (firstn (N.to_nat (s_wcount s) - 1) (s_words s)).

Fixpoint numbered_words (i : N) (ws : list text) : list (text * json) :=
  match ws with [] => [] | w :: t => (L "Hex Word " ++ dec i, js w) :: numbered_words (i + 1) t end.

Definition pad8 (ws : list text) : list text := ws ++ repeat (L "00000000") (8 - length ws).

(* value is not None and value != '' and value != 'null'  ->  out["SRC Details"] = json.loads(value), uncaught *)
Definition src_details_text (t : text) : option (list (text * json)) :=
  if text_eqb t [] || text_eqb t (L "null") then Some []
  else match loads t with
       | LOk j => Some [(L "SRC Details", j)]
       | LError => None
       | LBeyond => Some [(L "@loads_strict:SRC Details", js t)]
       end.

Definition src_details (e : env) (creator : text) (ascii : text) (ws : list text) : option (list (text * json)) :=
  match src_import e (src_module creator) with
  | IFound f =>
      match f ascii (pad8 ws) with
      | PRetJ JNull => Some []
      | PRetJ j => Some [(L "SRC Details", j)]
      | PRetT t => src_details_text t
      | PRetEmpty => Some []
      | PNone => Some []
      | PNonStr => None
      | PRaise _ | PRaiseImport _ => Some []
      end
  | _ => Some []
  end.

(* ---- registry: getErrorMessage / buildMessage / buildHexwordDescs ---- *)
Definition reg_find (reg : list reg_pel) (code ty : text) : option reg_pel :=
  List.find (fun p => match r_reason p with
                      | None => false
                      | Some rc => text_eqb ty (match r_type p with Some t => t | None => L "BD" end) && substrb code rc
                      end) reg.

(* hex(int): "0x" + lower-case digits, no padding *)
Definition py_hex (v : N) : text := L "0x" ++ hexL 1 v.

(* Python list indexing with a possibly negative index *)
Definition py_index (ws : list N) (i : Z) : option N :=
  let n := Z.of_nat (length ws) in
  if (0 <=? i)%Z && (i <? n)%Z then nth_error ws (Z.to_nat i)
  else if (i <? 0)%Z && (0 <=? n + i)%Z then nth_error ws (Z.to_nat (n + i))
  else None.

Definition digit_val (c : N) : option Z := if (48 <=? c) && (c <=? 57) then Some (Z.of_N (c - 48)) else None.

(* int(arg[-1]) - 2 : the last character must be an ASCII digit (other Unicode digits are outside the model) *)
Definition arg_word (ws : list N) (arg : text) : option N :=
  match rev arg with
  | c :: _ => match digit_val c with Some d => py_index ws (d - 2)%Z | None => None end
  | [] => None
  end.

(* re.sub(r'%[1-9]', '{}', message) followed by str.format with the argument list: every %N takes the NEXT argument;
   a brace in the message, or too few arguments, raises *)
Fixpoint fill_message (msg : text) (args : list text) : option text :=
  match msg with
  | [] => Some []
  | c :: t =>
      if (c =? 123) || (c =? 125) then None
      else if c =? 37 then
        match t with
        | d :: t' => if (49 <=? d) && (d <=? 57) then
                       match args with
                       | a :: args' => option_map (app a) (fill_message t' args')
                       | [] => None
                       end
                     else option_map (cons c) (fill_message t args)
        | [] => Some [c]
        end
      else option_map (cons c) (fill_message t args)
  end.

Definition build_message (ws : list N) (p : reg_pel) : option text :=
  match r_args p with
  | None => Some (r_message p)
  | Some srcs =>
      match all_some (map (arg_word ws) srcs) with
      | Some vals => fill_message (r_message p) (map py_hex vals)
      | None => None
      end
  end.

Definition word_num (t : text) : option Z :=
  match t with [c] => digit_val c | _ => None end.     (* int("6") ; multi-character keys are outside the model *)

Fixpoint hexword_descs (ws : list N) (l : list reg_word) (acc : list (text * json)) : option (list (text * json)) :=
  match l with
  | [] => Some acc
  | w :: t =>
      match rw_desc w with
      | None => hexword_descs ws t acc
      | Some d =>
          match word_num (rw_num w) with
          | Some n => match py_index ws (n - 2)%Z with
                      | Some v => hexword_descs ws t (obj_set acc (rw_source w) (JArr [jn v; js d]))
                      | None => None
                      end
          | None => None
          end
      end
  end.

(* None = an exception escapes; Some [] = no "Error Details" *)
Definition error_details (e : env) (ws : list N) (ascii : text) : option (list (text * json)) :=
  match reg_find (registry e) (L "0x" ++ firstn 4 (skipn 4 ascii)) (firstn 2 ascii) with
  | None => Some []
  | Some p =>
      match build_message ws p with
      | None => None
      | Some [] => Some []
      | Some m =>
          match hexword_descs ws (r_words p) [] with
          | Some ds => Some [(L "Error Details", JObj (obj_update [(L "Message", js m)] ds))]
          | None => None
          end
      end
  end.

Definition render_src (e : env) (c : config) (h : shdr) (creator : text) (s : src_t) : option (list (text * json)) :=
  match utf8_decode (s_ascii s) with
  | None => None
  | Some ascii =>
    let ty := firstn 2 ascii in
    let is_bmc_src := text_eqb ty SRCType_bmcError || text_eqb ty SRCType_powerError in
    let is_hb := text_eqb ty SRCType_hostbootError in
    let w := fun i => nth i (s_words s) 0 in
    let ws := src_hexwords s in
    match (if is_bmc_src || is_hb then error_details e (s_words s) ascii else Some []) with
    | None => None
    | Some ed =>
    let head :=
      base_fields e h creator (L "Created by") ++
      [(L "SRC Version", js (L "0x" ++ hex2L (s_version s)));
       (L "SRC Format", js (x0 2 (N.land (w 0%nat) 255)));
       (L "Virtual Progress SRC", tf (has (s_flags s) HeaderFlags_virtualProgressSRC));
       (L "I5/OS Service Event Bit", tf (has (s_flags s) HeaderFlags_i5OSServiceEventBit));
       (L "Hypervisor Dump Initiated", tf (has (s_flags s) HeaderFlags_hypDumpInit))] ++
      (if is_bmc_src then
         [(L "Backplane CCIN", js (hexU 4 (N.shiftr (w 1%nat) 16)));
          (L "Terminate FW Error", tf (has (w 3%nat) ErrorStatusFlags_terminateFwErr))] else []) ++
      (if is_bmc_src || is_hb then
         [(L "Deconfigured", tf (has (w 3%nat) ErrorStatusFlags_deconfigured));
          (L "Guarded", tf (has (w 3%nat) ErrorStatusFlags_guarded))] else []) ++
      ed ++
      [(L "Valid Word Count", js (x0 2 (s_wcount s)));
       (L "Reference Code", js (strip_ws ascii))] ++
      numbered_words 2 ws in
    let co := match s_callouts s with
              | None => Some []
              | Some cs => option_map (fun l => [(L "Callout Section", JObj l)]) (render_callouts e c creator cs)
              end in
    match co with
    | None => None
    | Some co =>
        if allow_plugins c then
          match src_details e creator ascii ws with
          | Some d => Some (head ++ co ++ d)
          | None => None
          end
        else Some (head ++ co)
    end
    end
  end.

(* ---- sections ---- *)
Definition section_name (id : N) : text :=
  match lookup_t sectionNames [N.land (N.shiftr id 8) 255; N.land id 255] with Some n => n | None => L "Unknown" end.

Definition render_section (e : env) (c : config) (creator : text) (s : section_t) : option (text * list (text * json)) :=
  let h := sec_hdr s in
  option_map (fun o => (section_name (sec_id s), o))
    match sec_body s with
    | BSrc x => render_src e c h creator x
    | BEh x => render_eh e h creator x
    | BMt x => render_mt e h creator x
    | BLp x => render_lp e h creator x
    | BUd d => render_ud e c h creator d
    | BEd cr _ _ d => render_ud e c h [cr] d          (* chr(byte): never rejects *)
    | BOther d => Some (render_other h d)
    end.

(* buildOutput: names occurring more than once are numbered 0,1,2.. in order of appearance *)
Definition count_name (names : list text) (n : text) : nat := length (filter (text_eqb n) names).
Fixpoint number_names (all_names : list text) (seen : list text) (names : list text) : list text :=
  match names with
  | [] => []
  | n :: t =>
      (if Nat.eqb (count_name all_names n) 1 then n else n ++ L " " ++ dec (N.of_nat (count_name seen n)))
      :: number_names all_names (n :: seen) t
  end.
Definition numbered (names : list text) : list text := number_names names [] names.

Definition build_output (hdrs : list (text * json)) (secs : list (text * list (text * json))) : list (text * json) :=
  fold_left (fun acc kv => obj_set acc (fst kv) (snd kv))
            (combine (numbered (map fst secs)) (map (fun s => JObj (snd s)) secs)) hdrs.
