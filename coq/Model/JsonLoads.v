(* Model of Python's json.loads on a str, as CPython 3.12 runs it (the C scanner of _json: ASCII digits only,
   strict=True, NaN / Infinity / -Infinity accepted), with object_pairs_hook = OrderedDict semantics for objects
   (a repeated key keeps its first position and takes the last value), over the lexer of Model/Pretty.v.
   Also the model of json.dumps(obj, indent=4) (ensure_ascii=True), the printer parsePEL uses.  Definitions only.

   Three answers:
     LOk j    - json.loads returns j
     LError   - json.loads raises ValueError: a JSONDecodeError, or the integer-digit limit of int()
                (sys.int_max_str_digits = 4300) on an integer literal
     LBeyond  - not decided here: the value contains a float (its repr is not modelled), or brackets nest deeper than
                [depth_limit] (the interpreter raises RecursionError at a depth that depends on its stack) *)
From Coq Require Import List NArith ZArith Bool Arith.
From PV Require Import Base.Bytes Base.Lit Base.Json Model.Pretty.
Import ListNotations.
Open Scope N_scope.

(* ---- string literal bodies (the raw text between the quotes, escapes included) ---- *)
Definition jhexval (c : N) : option N :=
  if (48 <=? c) && (c <=? 57) then Some (c - 48)
  else if (97 <=? c) && (c <=? 102) then Some (c - 87)
  else if (65 <=? c) && (c <=? 70) then Some (c - 55)
  else None.

Definition hex4 (a b c d : N) : option N :=
  match jhexval a, jhexval b, jhexval c, jhexval d with
  | Some x, Some y, Some z, Some w => Some (((x * 16 + y) * 16 + z) * 16 + w)
  | _, _, _, _ => None
  end.

Definition simple_esc (c : N) : option N :=
  if c =? 34 then Some 34 else if c =? 92 then Some 92 else if c =? 47 then Some 47
  else if c =? 98 then Some 8 else if c =? 102 then Some 12 else if c =? 110 then Some 10
  else if c =? 114 then Some 13 else if c =? 116 then Some 9 else None.

Definition is_high (v : N) : bool := (55296 <=? v) && (v <=? 56319).
Definition is_low (v : N) : bool := (56320 <=? v) && (v <=? 57343).
Definition join_pair (hi lo : N) : N := 65536 + (hi - 55296) * 1024 + (lo - 56320).

(* a \uXXXX escape at the head of l: (value, rest) *)
Definition u_escape (l : text) : option (N * text) :=
  match l with
  | b :: u :: x1 :: x2 :: x3 :: x4 :: r =>
      if (b =? 92) && (u =? 117) then
        match hex4 x1 x2 x3 x4 with Some v => Some (v, r) | None => None end
      else None
  | _ => None
  end.

(* scanstring: a high surrogate escape directly followed by a low surrogate escape is one character; any other
   surrogate stays alone.  The fuel is the length of the body (every step consumes at least one character). *)
Fixpoint unescape (fuel : nat) (l : text) : option text :=
  match l with
  | [] => Some []
  | c :: t =>
      match fuel with
      | O => None
      | S f =>
          if c =? 92 then
            match t with
            | [] => None
            | e :: t1 =>
                if e =? 117 then
                  match t1 with
                  | x1 :: x2 :: x3 :: x4 :: t2 =>
                      match hex4 x1 x2 x3 x4 with
                      | None => None
                      | Some v =>
                          if is_high v then
                            match u_escape t2 with
                            | Some (v2, t3) =>
                                if is_low v2 then option_map (cons (join_pair v v2)) (unescape f t3)
                                else option_map (cons v) (unescape f t2)
                            | None => option_map (cons v) (unescape f t2)
                            end
                          else option_map (cons v) (unescape f t2)
                      end
                  | _ => None
                  end
                else
                  match simple_esc e with
                  | Some v => option_map (cons v) (unescape f t1)
                  | None => None
                  end
            end
          else option_map (cons c) (unescape f t)
      end
  end.

Definition str_of (raw : text) : option text := unescape (length raw) raw.

(* ---- atoms ---- *)
Definition jdigit (c : N) : bool := (48 <=? c) && (c <=? 57).

Fixpoint span_digits (l : text) : text * text :=
  match l with
  | c :: t => if jdigit c then let '(a, b) := span_digits t in (c :: a, b) else ([], l)
  | [] => ([], [])
  end.

Definition dec_val (acc : N) (l : text) : N := fold_left (fun a c => a * 10 + (c - 48)) l acc.

Definition max_int_digits : nat := 4300.

Definition strip_minus (a : text) : bool * text :=
  match a with c :: t => if c =? 45 then (true, t) else (false, a) | [] => (false, a) end.

(* the integer part of NUMBER_RE: 0 | [1-9][0-9]* *)
Definition int_part_ok (ds : text) : bool :=
  match ds with
  | [] => false
  | c :: t => if c =? 48 then (match t with [] => true | _ => false end) else true
  end.

Inductive atom_res := AVal (j : json) | ATooLong | ABad.

Definition is_nil {A} (l : list A) : bool := match l with [] => true | _ => false end.

Definition float_atom (a : text) : bool :=
  let ds0 := snd (strip_minus a) in
  let '(ip, r) := span_digits ds0 in
  let '(frac_ok, has_frac, r2) :=
    match r with
    | c :: t => if c =? 46 then let '(fd, r') := span_digits t in (negb (is_nil fd), true, r') else (true, false, r)
    | [] => (true, false, r)
    end in
  let '(exp_ok, has_exp, r3) :=
    match r2 with
    | c :: t =>
        if (c =? 101) || (c =? 69) then
          let t' := match t with s :: u => if (s =? 43) || (s =? 45) then u else t | [] => t end in
          let '(ed, r') := span_digits t' in (negb (is_nil ed), true, r')
        else (true, false, r2)
    | [] => (true, false, r2)
    end in
  int_part_ok ip && frac_ok && exp_ok && (has_frac || has_exp) && is_nil r3.

Definition atom (a : text) : atom_res :=
  if text_eqb a (L "null") then AVal JNull
  else if text_eqb a (L "true") then AVal (JBool true)
  else if text_eqb a (L "false") then AVal (JBool false)
  else if text_eqb a (L "NaN") || text_eqb a (L "Infinity") || text_eqb a (L "-Infinity") then AVal (JFloat a)
  else
    let '(neg, ds) := strip_minus a in
    if forallb jdigit ds && int_part_ok ds then
      if Nat.ltb max_int_digits (length ds) then ATooLong
      else let v := Z.of_N (dec_val 0 ds) in AVal (JNum (if neg then Z.opp v else v))
    else if float_atom a then AVal (JFloat a)
    else ABad.

(* ---- values over the token sequence ---- *)
(* OrderedDict(pairs) *)
Definition build_obj (pairs : list (text * json)) : list (text * json) := obj_update [] pairs.

Inductive pk := KVal | KArr (acc : list json) | KObj (acc : list (text * json)).

Fixpoint pval (fuel : nat) (k : pk) (ts : list tok) : option (json * list tok) :=
  match fuel with
  | O => None
  | S f =>
      match k with
      | KVal =>
          match ts with
          | TStr raw :: r => match str_of raw with Some s => Some (JStr s, r) | None => None end
          | TAtom a :: r => match atom a with AVal j => Some (j, r) | _ => None end
          | TP c :: r =>
              if c =? 91 then
                match r with
                | TP c2 :: r2 => if c2 =? 93 then Some (JArr [], r2) else pval f (KArr []) r
                | _ => pval f (KArr []) r
                end
              else if c =? 123 then
                match r with
                | TP c2 :: r2 => if c2 =? 125 then Some (JObj [], r2) else pval f (KObj []) r
                | _ => pval f (KObj []) r
                end
              else None
          | [] => None
          end
      | KArr acc =>
          match pval f KVal ts with
          | Some (v, TP c :: r) =>
              if c =? 44 then pval f (KArr (v :: acc)) r
              else if c =? 93 then Some (JArr (rev (v :: acc)), r)
              else None
          | _ => None
          end
      | KObj acc =>
          match ts with
          | TStr raw :: TP c :: r =>
              if c =? 58 then
                match str_of raw with
                | Some key =>
                    match pval f KVal r with
                    | Some (v, TP c2 :: r2) =>
                        if c2 =? 44 then pval f (KObj ((key, v) :: acc)) r2
                        else if c2 =? 125 then Some (JObj (build_obj (rev ((key, v) :: acc))), r2)
                        else None
                    | _ => None
                    end
                | None => None
                end
              else None
          | _ => None
          end
      end
  end.

(* nesting of brackets in the token sequence *)
Fixpoint max_depth (cur best : nat) (ts : list tok) : nat :=
  match ts with
  | [] => best
  | TP c :: r =>
      if (c =? 91) || (c =? 123) then max_depth (S cur) (Nat.max best (S cur)) r
      else if (c =? 93) || (c =? 125) then max_depth (Nat.pred cur) best r
      else max_depth cur best r
  | _ :: r => max_depth cur best r
  end.

Definition depth_limit : nat := 200.

Fixpoint has_float (j : json) : bool :=
  match j with
  | JFloat _ => true
  | JArr l => existsb has_float l
  | JObj l => existsb (fun kv => has_float (snd kv)) l
  | _ => false
  end.

Inductive lres := LOk (j : json) | LError | LBeyond.

Definition loads_tokens (ts : list tok) : lres :=
  if Nat.ltb depth_limit (max_depth 0 0 ts) then LBeyond
  else match pval (2 * length ts + 2) KVal ts with
       | Some (j, []) => if has_float j then LBeyond else LOk j
       | _ => LError
       end.

Definition loads (s : text) : lres :=
  match tokens s with
  | Some ts => loads_tokens ts
  | None => LError
  end.

(* ---- json.dumps(obj, indent=4): item separator ",\n" + indentation, key separator ": ", empty containers "[]" "{}" ---- *)
Definition ind (n : nat) : text := repeat 32 (4 * n).

Fixpoint dumps4 (n : nat) (j : json) : text :=
  match j with
  | JArr [] => L "[]"
  | JObj [] => L "{}"
  | JArr l => [91; 10] ++ join [44; 10] (map (fun v => ind (S n) ++ dumps4 (S n) v) l) ++ [10] ++ ind n ++ [93]
  | JObj l => [123; 10] ++ join [44; 10] (map (fun kv => ind (S n) ++ render_str (fst kv) ++ [58; 32] ++ dumps4 (S n) (snd kv)) l)
              ++ [10] ++ ind n ++ [125]
  | _ => render j
  end.

(* ---- a decidable form of the hypothesis of the round-trip theorems (Proofs/JsonLoadsFacts.v wf_json; soundness proved there).
   The extracted binary evaluates it on the documents the decode model produces. ---- *)
Fixpoint jdepth (j : json) : nat :=
  match j with
  | JArr l => S (fold_right (fun x m => Nat.max (jdepth x) m) O l)
  | JObj l => S (fold_right (fun kv m => Nat.max (jdepth (snd kv)) m) O l)
  | _ => O
  end.

Fixpoint no_pairb (s : text) : bool :=
  match s with
  | c :: t => negb (is_high c && match t with d :: _ => is_low d | [] => false end) && no_pairb t
  | [] => true
  end.
Definition wf_strb (s : text) : bool := forallb (fun c => c <? 1114112) s && no_pairb s.
Definition digits_okb (z : Z) : bool := Nat.leb (length (dec (Z.abs_N z))) max_int_digits.
Fixpoint nodupb (l : list text) : bool :=
  match l with [] => true | x :: t => negb (existsb (text_eqb x) t) && nodupb t end.
Fixpoint wfjb (j : json) : bool :=
  match j with
  | JNull | JBool _ => true
  | JNum z => digits_okb z
  | JFloat _ => false
  | JStr s => wf_strb s
  | JArr l => forallb wfjb l
  | JObj l => forallb (fun kv => wf_strb (fst kv) && wfjb (snd kv)) l && nodupb (map fst l)
  end.
Definition wf_jsonb (j : json) : bool := wfjb j && Nat.leb (jdepth j) depth_limit.
