(* Model of peltool.considerPEL / considerPELIfSeverityMatches / UserHeader.isHidden / isServiceable (repaired severity
   group test), and the declarative selection rules of the documentation.  No proofs here. *)
From Coq Require Import List NArith Bool Arith.
From PV Require Import Base.Bytes Base.PelTypes Gen.Tables.
Import ListNotations.
Open Scope N_scope.

Record sel_config := {
  every : bool; term : bool; svc : bool; nsvc : bool; hid : bool; only : bool;
  sevs : list N;          (* severity group digits chosen with --severities *)
  lookup : bool }.        (* config.plid or config.src or config.bmcID or config.pelID or config.srcExcludeFile *)

Definition nz (v : N) : bool := negb (v =? 0).
Definition is_hidden (u : uh_t) : bool := nz (N.land (uh_flags u) ActionFlagsValues_hiddenActionFlag).
Definition is_serviceable (u : uh_t) : bool :=
  if negb (uh_sev u =? SeverityValues_infoSeverity) then
    (if nz (N.land (uh_flags u) ActionFlagsValues_reportFlag) then (if negb (is_hidden u) then true else false) else false)
  else if nz (N.land (uh_flags u) ActionFlagsValues_serviceActionFlag) then true else false.

Definition in_group (u : uh_t) (g : N) : bool := N.shiftr (uh_sev u) 4 =? g.
Definition sev_matches (c : sel_config) (u : uh_t) : bool := existsb (in_group u) (sevs c).
Definition nonempty {A} (l : list A) : bool := match l with [] => false | _ => true end.

(* the early-return cascade of considerPEL *)
Definition consider (c : sel_config) (u : uh_t) : bool :=
  if every c then true else
  if term c && (uh_sev u =? SeverityValues_critSysTermSeverity) then true else
  if svc c && is_serviceable u then (if only c && nonempty (sevs c) && negb (sev_matches c u) then false else true) else
  if nsvc c && negb (is_serviceable u) then (if only c && nonempty (sevs c) && negb (sev_matches c u) then false else true) else
  if hid c && is_hidden u then (if only c && nonempty (sevs c) && negb (sev_matches c u) then false else true) else
  if nonempty (sevs c) && sev_matches c u then (if only c && (svc c || nsvc c || hid c) then false else true) else
  if only c || is_hidden u || negb (is_serviceable u) then (if lookup c then true else false) else true.
