(* Model of modules/io_drawer/dump.py : parse_dump_data, parse_dump_file (and the two _format_* helpers).
   The PTE table and the trace-string table are abstract, exactly as in Model/Ilog.v and Model/Trace.v (the
   header-file / string-file grammars are not modelled; the harness hands over the tables the real parsers
   read).  Constants come from Gen.Tables (regenerated from /repo every run).  Definitions only. *)
From Coq Require Import List NArith Bool Arith.
From PV Require Import Base.Bytes Base.Lit Base.Utf8 Model.Hexdump Model.Ilog Model.Trace Gen.Tables.
Import ListNotations.
Open Scope N_scope.

(* ---------- the byte patterns searched for ---------- *)
(* buffer_name.encode(): UTF-8; the shipped names are ASCII (Props/C17.v : C17_patterns_agree).  A name that
   cannot be encoded (a lone surrogate) would make Python raise; no such name can be written here, the
   fallback keeps the function total. *)
Definition encode_name (name : text) : bytes :=
  match utf8_encode name with Some b => b | None => name end.

(* TRACE_BUFFER_HEADER_START + buffer_name.encode()  for buffer_name in TraceBufferHeader.BUFFER_NAMES *)
Definition header_patterns : list bytes :=
  map (fun name => TRACE_BUFFER_HEADER_START ++ encode_name name) TraceBufferHeader_BUFFER_NAMES.

(* ---------- search, sort, slice ---------- *)
(* for buffer_name in BUFFER_NAMES: offset = data_bytes.find(start_bytes); if offset != -1: append *)
Definition buffer_offsets (pats : list bytes) (d : bytes) : list nat :=
  flat_map (fun p => match find p d with Some i => [i] | None => [] end) pats.

(* sorted(buffer_offsets) *)
Fixpoint insert (x : nat) (l : list nat) : list nat :=
  match l with
  | [] => [x]
  | y :: t => if Nat.leb x y then x :: l else y :: insert x t
  end.
Fixpoint sorted (l : list nat) : list nat :=
  match l with [] => [] | x :: t => insert x (sorted t) end.

Definition dump_offsets (pats : list bytes) (d : bytes) : list nat := sorted (buffer_offsets pats d).

(* data[b:e] for 0 <= b, e  (empty when e <= b; short when the data ends first) *)
Definition slice (d : bytes) (b e : nat) : bytes := firstn (e - b) (skipn b d).

(* "end": the next offset, else len(data) *)
Definition end_of (d : bytes) (next : list nat) : nat :=
  match next with e :: _ => e | [] => length d end.

Definition ilog_slice (d : bytes) (offs : list nat) : bytes := slice d 0 (end_of d offs).

(* for (i, buffer_offset) in enumerate(buffer_offsets): data[buffer_offset : buffer_offsets[i+1] or len(data)] *)
Fixpoint trace_slices (d : bytes) (offs : list nat) : list bytes :=
  match offs with
  | [] => []
  | b :: t => slice d b (end_of d t) :: trace_slices d t
  end.

(* ---------- _format_ilog_data / _format_trace_data ---------- *)
Definition block (title : text) (body : list text) : list text :=
  [title; []] ++ body ++ [[]; DIVIDER_LINE; []].
Definition ilog_block (body : list text) : list text := block (L "ILOG") body.
Definition trace_block (body : list text) : list text := block (L "Trace") body.

(* ---------- parse_dump_data ---------- *)
(* DumpUnsupported : a PTE pattern or a %-conversion outside the modelled fragments is needed (Ilog.v, TraceFmt.v);
   DumpRaise / DumpOutOfFuel : parse_ilog's assertion / fuel outcomes (impossible: Props/C14.v C14_total) *)
Inductive dump_res := DumpOk (lines : list text) | DumpUnsupported | DumpRaise | DumpOutOfFuel.

Definition parse_dump_with (pats : list bytes) (ptes : list pte_entry) (strs : list tstring) (d : bytes) : dump_res :=
  match d with
  | [] => DumpOk []                                                      (* if not data: return lines *)
  | _ =>
      let offs := dump_offsets pats d in
      match parse_ilog ptes (ilog_slice d offs) with
      | IOk ls =>
          let regs := trace_slices d offs in
          if forallb (trace_supported strs) regs
          then DumpOk (ilog_block ls ++ flat_map (fun r => trace_block (parse_trace strs r)) regs)
          else DumpUnsupported
      | IUnsupported => DumpUnsupported
      | IAssert => DumpRaise
      | IOutOfFuel => DumpOutOfFuel
      end
  end.

Definition parse_dump : list pte_entry -> list tstring -> bytes -> dump_res := parse_dump_with header_patterns.

(* ---------- parse_dump_file ---------- *)
(* data = bytearray(); for line_format in HEX_DUMP_LINE_FORMATS: data = hexdump.parse(lines, line_format); if data: break *)
Fixpoint first_nonempty (fmts : list text) (lines : list text) : bytes :=
  match fmts with
  | [] => []
  | f :: t => match parse f lines with [] => first_nonempty t lines | d => d end
  end.

(* [lines] is what file.readlines() returned (each line with its newline) *)
Definition parse_dump_file (ptes : list pte_entry) (strs : list tstring) (lines : list text) : dump_res :=
  match first_nonempty HEX_DUMP_LINE_FORMATS lines with
  | [] => DumpOk []                                                      (* if data: ... else lines = [] *)
  | d => parse_dump ptes strs d
  end.

(* file.readlines() on text whose newlines are already '\n' (universal-newline translation is the reader's) *)
Fixpoint readlines_from (s : text) (cur : text) : list text :=
  match s with
  | [] => match cur with [] => [] | _ => [rev cur] end
  | c :: t => if c =? nl then rev (c :: cur) :: readlines_from t [] else readlines_from t (c :: cur)
  end.
Definition readlines (s : text) : list text := readlines_from s [].

(* ---------- the same result with one pass per trace region (what the extracted binary evaluates;
   Proofs/DumpFacts.v : dump_fast_eq) ---------- *)
Fixpoint trace_blocks_fast (strs : list tstring) (regs : list bytes) : bool * list text :=
  match regs with
  | [] => (true, [])
  | r :: t =>
      let a := trace_fast strs r in
      let rest := trace_blocks_fast strs t in
      (fst a && fst rest, trace_block (snd a) ++ snd rest)
  end.

Definition dump_fast (pats : list bytes) (ptes : list pte_entry) (strs : list tstring) (d : bytes) : dump_res :=
  match d with
  | [] => DumpOk []
  | _ =>
      let offs := dump_offsets pats d in
      match parse_ilog ptes (ilog_slice d offs) with
      | IOk ls =>
          let r := trace_blocks_fast strs (trace_slices d offs) in
          if fst r then DumpOk (ilog_block ls ++ snd r) else DumpUnsupported
      | IUnsupported => DumpUnsupported
      | IAssert => DumpRaise
      | IOutOfFuel => DumpOutOfFuel
      end
  end.

Definition dump_file_fast (ptes : list pte_entry) (strs : list tstring) (lines : list text) : dump_res :=
  match first_nonempty HEX_DUMP_LINE_FORMATS lines with
  | [] => DumpOk []
  | d => dump_fast header_patterns ptes strs d
  end.
