(* The environment of this sandbox: which parser modules exist in /repo and what they do.
   pel_registry (component names, message registry) is absent here, so comp_name is empty. *)
From Coq Require Import List NArith ZArith Bool Arith.
From PV Require Import Base.Bytes Base.Lit Base.Json Model.Render Model.Hwdiags Gen.Tables.
Import ListNotations.
Open Scope N_scope.

(* calloutparsers.ocallouts.ocallouts.getMaintProcDesc *)
Definition ocallouts (proc : text) : plugin_result :=
  match lookup_t ocallouts_procedures proc with
  | Some lines => PRetJ (jstrs lines)
  | None => PRetEmpty
  end.

(* a shipped plugin whose model is not plugged in yet: the harness skips such cases and counts them *)
Definition unsupported : plugin_result := PRetT (L "@unsupported").

(* srcparsers.osrc.osrc.parseSRCToJson: routes to srcparsers.o<xx>00 (only oe500 exists) or bsrc (absent) *)
Definition osrc (hw : text -> list text -> plugin_result) (refcode : text) (words : list text) : plugin_result :=
  if text_eqb (firstn 2 refcode) (L "BC") then PRetJ JNull
  else if text_eqb (map lower_c (firstn 2 (skipn 4 refcode))) (L "e5") then hw refcode words
  else PRetJ JNull.

Definition shipped_env (ud_oe500 ud_m2c00 : N -> N -> bytes -> plugin_result)
                       (src_oe500 : text -> list text -> plugin_result) : env :=
  {| comp_name := fun _ _ => None;
     ud_import := fun m =>
       if text_eqb m (L "udparsers.oe500.oe500") then IFound ud_oe500
       else if text_eqb m (L "udparsers.m2c00.m2c00") then IFound ud_m2c00
       else INotFound;
     src_import := fun m =>
       if text_eqb m (L "srcparsers.osrc.osrc") then IFound (osrc src_oe500) else INotFound;
     co_import := fun m =>
       if text_eqb m (L "calloutparsers.ocallouts.ocallouts") then IFound ocallouts else INotFound |}.

(* the exception text of a failing shipped plugin is not modelled: the harness compares such error notes up to this marker *)
Definition hw_plugin (r : hw_result) : plugin_result :=
  match r with HwOk j => PRetJ j | HwRaise => PRaise (L "@exc") | HwFuel => unsupported end.

(* pel/hwdiags/data holds no chip data files in this repository: the chip-data environment is empty *)
Definition env0 : env :=
  shipped_env (fun sub ver d => hw_plugin (oe500_ud [] sub ver d)) (fun _ _ _ => unsupported)
              (fun refcode words => hw_plugin (oe500_src [] refcode words)).
