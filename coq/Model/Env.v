(* The environment of this sandbox: which parser modules exist in /repo and what they do.
   pel_registry (component names, message registry) is absent here, so comp_name is empty. *)
From Coq Require Import List NArith ZArith Bool Arith.
From PV Require Import Base.Bytes Base.Lit Base.Json Base.PelTypes Model.Render Model.Hwdiags Gen.Tables.
From PV Require Model.M2c00.
Import ListNotations.
Open Scope N_scope.

(* calloutparsers.ocallouts.ocallouts.getMaintProcDesc *)
Definition ocallouts (proc : text) : plugin_result :=
  match lookup_t ocallouts_procedures proc with
  | Some lines => PRetJ (jstrs lines)
  | None => PRetEmpty
  end.

(* a shipped plugin whose model is not plugged in yet: the harness skips such cases and counts them *)
Definition unsupported : plugin_result := PRetT (L "@unsupported").

(* srcparsers.osrc.osrc.parseSRCToJson: routes BMC SRCs to srcparsers.o<xx>00 (xx = the component named by characters 4..5 of the
   reference code, lower case), or to the hostboot parser srcparsers.bsrc for BC reference codes.  A missing module gives JSON
   null (no SRC details); any other import failure or a failure of the component parser escapes to SRC.parse, which drops it. *)
Definition osrc_target (refcode : text) : text :=
  if text_eqb (firstn 2 refcode) (L "BC") then L "srcparsers.bsrc.bsrc"
  else let n := L "o" ++ map lower_c (firstn 2 (skipn 4 refcode)) ++ L "00" in L "srcparsers." ++ n ++ L "." ++ n.

Definition osrc (lookup : text -> import_outcome (text -> list text -> plugin_result)) (refcode : text) (words : list text)
  : plugin_result :=
  match lookup (osrc_target refcode) with
  | IFound f => f refcode words
  | INotFound => PRetJ JNull
  | IBroken msg => PRaise msg
  end.

(* extra parser modules made available by a test fixture; consulted before the shipped ones *)
Record fixtures := {
  fx_registry : list reg_pel;                     (* a pel_registry package on sys.path: message registry ... *)
  fx_comp : text -> text -> option text;          (* ... and <creator>_component_ids.json files *)
  fx_ud : text -> option (import_outcome (N -> N -> bytes -> plugin_result));
  fx_src : text -> option (import_outcome (text -> list text -> plugin_result));
  fx_co : text -> option (import_outcome (text -> plugin_result)) }.
Definition no_fixtures : fixtures := {| fx_registry := []; fx_comp := fun _ _ => None; fx_ud := fun _ => None; fx_src := fun _ => None; fx_co := fun _ => None |}.

Definition shipped_env_fx (fx : fixtures) (ud_oe500 ud_m2c00 : N -> N -> bytes -> plugin_result)
                          (src_oe500 : text -> list text -> plugin_result) : env :=
  let src_lookup := fun m =>
    match fx_src fx m with
    | Some o => o
    | None => if text_eqb m (L "srcparsers.oe500.oe500") then IFound src_oe500 else INotFound
    end in
  {| registry := fx_registry fx;
     comp_name := fx_comp fx;
     ud_import := fun m =>
       match fx_ud fx m with
       | Some o => o
       | None =>
           if text_eqb m (L "udparsers.oe500.oe500") then IFound ud_oe500
           else if text_eqb m (L "udparsers.m2c00.m2c00") then IFound ud_m2c00
           else INotFound
       end;
     src_import := fun m =>
       if text_eqb m (L "srcparsers.osrc.osrc") then IFound (osrc src_lookup)
       else match fx_src fx m with Some o => o | None => INotFound end;
     co_import := fun m =>
       match fx_co fx m with
       | Some o => o
       | None => if text_eqb m (L "calloutparsers.ocallouts.ocallouts") then IFound ocallouts else INotFound
       end |}.

Definition shipped_env := shipped_env_fx no_fixtures.

(* the exception text of a failing shipped plugin is not modelled: the harness compares such error notes up to this marker *)
Definition hw_plugin (r : hw_result) : plugin_result :=
  match r with HwOk j => PRetJ j | HwRaise => PRaise (L "@exc") | HwFuel => unsupported end.

(* udparsers.m2c00 with the drawer tables shipped in /repo (Gen/IoTables.v); a trace string outside the modelled
   %-conversions is the only unsupported case *)
Definition m2_plugin (r : M2c00.m2_result) : plugin_result :=
  match r with M2c00.M2Ok j => PRetJ j | M2c00.M2Unsupported => unsupported end.

(* pel/hwdiags/data holds no chip data files in this repository: the chip-data environment is empty *)
Definition env_fx (fx : fixtures) : env :=
  shipped_env_fx fx (fun sub ver d => hw_plugin (oe500_ud [] sub ver d)) (fun sub ver d => m2_plugin (M2c00.m2c00_shipped sub ver d))
                 (fun refcode words => hw_plugin (oe500_src [] refcode words)).
Definition env0 : env := env_fx no_fixtures.

(* ---- fixture descriptions (as the harness sends them): kind, module name, behaviour, text ---- *)
(* behaviours 8 / 9: fail (ImportError / ValueError) only when [trigger] holds for the call, otherwise echo the arguments *)
Definition fx_result (behaviour : N) (payload : text) (echo : json) (trigger : bool) : plugin_result :=
  if behaviour =? 8 then (if trigger then PRaiseImport payload else PRetJ echo)
  else if behaviour =? 9 then (if trigger then PRaise payload else PRetJ echo)
  else if behaviour =? 0 then PRetT payload
  else if behaviour =? 1 then PNone
  else if behaviour =? 2 then PRaise payload
  else if behaviour =? 3 then PRaiseImport payload
  else if behaviour =? 4 then PNonStr
  else if behaviour =? 5 then PRetEmpty
  else PRetJ echo.

Definition fx_outcome {F} (behaviour : N) (payload : text) (f : F) : import_outcome F :=
  if behaviour =? 6 then IBroken payload else IFound f.

Definition fixtures_of (l : list (N * text * N * text)) : fixtures :=
  let pick (kind : N) (m : text) := List.find (fun x => let '(k, n, _, _) := x in (k =? kind) && text_eqb n m) l in
  {| fx_registry := []; fx_comp := fun _ _ => None;
     fx_ud := fun m => match pick 0 m with
                       | Some (_, _, b, p) => Some (fx_outcome b p (fun sub ver d =>
                           fx_result b p (JObj [(L "fx_subtype", JNum (Z.of_N sub)); (L "fx_version", JNum (Z.of_N ver)); (L "fx_data", JStr (bytes_hex d))])
                                     (match d with 255 :: _ => true | _ => false end)))
                       | None => None end;
     fx_src := fun m => match pick 1 m with
                        | Some (_, _, b, p) => Some (fx_outcome b p (fun refcode words =>
                            fx_result b p (JObj [(L "fx_refcode", JStr refcode); (L "fx_words", jstrs words)])
                                      (text_eqb (nth 0 words []) (L "FFFFFFFF"))))
                        | None => None end;
     fx_co := fun m => match pick 2 m with
                       | Some (_, _, b, p) => Some (fx_outcome b p (fun proc => fx_result b p (JStr proc) (prefixb (L "FAIL") proc)))
                       | None => None end |}.
