(* Model of modules/pel/hwdiags/parserdata.py (ParserData), modules/udparsers/oe500/oe500.py and
   modules/srcparsers/oe500/oe500.py.  Definitions only, total, computable.

   The chip-data files (pel/hwdiags/data/*.json, absent in this sandbox) are an abstract environment:
   an association list keyed by the "model_ec"/"id" text of each file.  A section that is missing in a
   file and an empty section behave alike (KeyError either way), so both are the empty list here.
   Schema assumed for what is present: type/desc/names/descriptions/addresses are JSON strings.

   Failure: an AssertionError (_check_hex/_check_int, DataStream range checks), ValueError (address that
   int(.., 16) rejects), UnicodeDecodeError or TypeError (wrong number of SRC words) that escapes the
   plugin is one value, [None] / [RRaise] / [HwRaise]. *)
From Coq Require Import List NArith ZArith Bool Arith.
From PV Require Import Base.Bytes Base.Lit Base.Json Base.Utf8 Base.Reader Model.Hexdump.
From PV Require Model.JsonLoads.
Import ListNotations.
Open Scope N_scope.

(* ------------------------------------------------------------------ *)
(* chip data                                                           *)

Record sigent := { sg_name : text; sg_bits : list (text * text) }.      (* [name, {str(bit): desc}] *)
Record regent := { rg_name : text; rg_addrs : list (text * text) }.     (* [name, {str(inst): hex address}] *)
Record chip := {
  c_type : option text;                 (* data["model_ec"]["type"] *)
  c_desc : option text;                 (* data["model_ec"]["desc"] *)
  c_attn : list (text * text);          (* data["attn_types"] : str(int) -> name *)
  c_sigs : list (text * sigent);        (* data["signatures"] : 4 lower-case hex digits -> entry *)
  c_regs : list (text * regent) }.      (* data["registers"]  : 6 lower-case hex digits -> entry *)
Definition chipdata := list (text * chip).   (* self._data : data["model_ec"]["id"] -> file content *)

Fixpoint assoc {V} (l : list (text * V)) (k : text) : option V :=
  match l with [] => None | (k', v) :: t => if text_eqb k k' then Some v else assoc t k end.
Definition obind {A B} (o : option A) (f : A -> option B) : option B :=
  match o with Some a => f a | None => None end.
Definition odflt {A} (o : option A) (d : A) : A := match o with Some a => a | None => d end.

Definition lower (s : text) : text := map lower_c s.
Definition upper (s : text) : text := map upper_c s.
Definition slice (a b : nat) (s : text) : text := firstn (b - a) (skipn a s).    (* s[a:b], a <= b *)

(* re.fullmatch('[0-9A-Fa-f]{2n}', s) *)
Definition check_hex (nbytes : nat) (s : text) : bool := Nat.eqb (length s) (2 * nbytes) && forallb is_hex s.
(* 0 <= v <= (1 << 8n) - 1 *)
Definition check_int (nbytes : nat) (v : N) : bool := v <? 256 ^ N.of_nat nbytes.
(* int(s, 16) on a string of hex digits *)
Definition hexnum (s : text) : N := fold_left (fun acc c => acc * 16 + hexval c) s 0.

(* int(s, base=16) for an address from the data file: hex digits with an optional 0x/0X prefix.
   (Python also accepts surrounding white space, a sign and single underscores; such addresses are
   outside the modelled domain and are never generated.) *)
Definition strip0x (s : text) : text :=
  match s with
  | 48 :: x :: t => if (x =? 120) || (x =? 88) then t else s
  | _ => s
  end.
Definition parse_addr (s : text) : option N :=
  match strip0x s with
  | [] => None
  | d => if forallb is_hex d then Some (hexnum d) else None
  end.

(* ------------------------------------------------------------------ *)
(* ParserData                                                          *)

Definition query_model_ec (cd : chipdata) (model_ec : text) : option bool :=
  let m := lower model_ec in
  if check_hex 4 m then Some (match assoc cd m with Some _ => true | None => false end) else None.

Definition get_attn_desc (cd : chipdata) (model_ec : text) (attn : N) : option text :=
  if check_hex 4 model_ec then
    Some (odflt (obind (assoc cd (lower model_ec)) (fun c => assoc (c_attn c) (dec attn))) (dec attn))
  else None.

Definition chip_desc_fmt (node : N) (ty : text) (pos : N) (desc : text) : text :=
  L "node " ++ dec node ++ L " " ++ ty ++ L " " ++ dec pos ++ L " (" ++ desc ++ L ")".

Definition get_chip_desc (cd : chipdata) (model_ec : text) (node pos : N) : option text :=
  if check_hex 4 model_ec && check_int 1 node && check_int 2 pos then
    let c := assoc cd (lower model_ec) in
    Some (chip_desc_fmt node (odflt (obind c c_type) (L "unknown")) pos (odflt (obind c c_desc) (upper (lower model_ec))))
  else None.

Definition sig_desc_fmt (name : text) (inst : N) (bit : N) (desc : text) : text :=
  name ++ L "(" ++ dec inst ++ L ")[" ++ dec bit ++ L "] " ++ desc.

Definition get_sig_desc (cd : chipdata) (model_ec sig_id : text) (inst bit : N) : option text :=
  if check_hex 4 model_ec && check_hex 2 sig_id && check_int 1 inst && check_int 1 bit then
    let e := obind (assoc cd (lower model_ec)) (fun c => assoc (c_sigs c) (lower sig_id)) in
    Some (sig_desc_fmt (odflt (option_map sg_name e) (L "id:" ++ upper (lower sig_id))) inst bit
                       (odflt (obind e (fun e => assoc (sg_bits e) (dec bit))) []))
  else None.

(* the OrderedDict get_signature returns *)
Definition get_signature (cd : chipdata) (wa wb wc : text) : option (list (text * json)) :=
  if check_hex 4 wa && check_hex 4 wb && check_hex 4 wc then
    let pos  := hexnum (slice 0 4 wb) in
    let node := hexnum (slice 4 6 wb) in
    let attn := hexnum (slice 6 8 wb) in
    let sid  := slice 0 4 wc in
    let inst := hexnum (slice 4 6 wc) in
    let bit  := hexnum (slice 6 8 wc) in
    match get_chip_desc cd wa node pos, get_sig_desc cd wa sid inst bit, get_attn_desc cd wa attn with
    | Some c, Some s, Some a => Some [(L "Chip Desc", JStr c); (L "Signature", JStr s); (L "Attn Type", JStr a)]
    | _, _, _ => None
    end
  else None.

Definition addr_fmt (v : N) : text := L "0x" ++ hexU 8 v.

Definition get_reg_data (cd : chipdata) (model_ec reg_id : text) (inst : N) : option (text * text) :=
  if check_hex 4 model_ec && check_hex 3 reg_id && check_int 1 inst then
    let e := obind (assoc cd (lower model_ec)) (fun c => assoc (c_regs c) (lower reg_id)) in
    let name := odflt (option_map rg_name e) (L "id:" ++ upper (lower reg_id) ++ L " inst:" ++ dec inst) in
    match obind e (fun e => assoc (rg_addrs e) (dec inst)) with
    | None => Some (name, addr_fmt 0)
    | Some a => match parse_addr a with Some v => Some (name, addr_fmt v) | None => None end
    end
  else None.

(* ------------------------------------------------------------------ *)
(* the checked DataStream with three outcomes                          *)

Inductive hres (A : Type) := ROk (a : A) | RRaise | RFuel.
Arguments ROk {A} a. Arguments RRaise {A}. Arguments RFuel {A}.
Definition hwr (A : Type) := bytes -> hres (A * bytes).
Definition hret {A} (a : A) : hwr A := fun s => ROk (a, s).
Definition hbind {A B} (r : hwr A) (f : A -> hwr B) : hwr B :=
  fun s => match r s with ROk (a, s') => f a s' | RRaise => RRaise | RFuel => RFuel end.
Definition hlift {A} (r : reader A) : hwr A := fun s => match r s with Some x => ROk x | None => RRaise end.
Definition hopt {A} (o : option A) : hwr A := fun s => match o with Some a => ROk (a, s) | None => RRaise end.
Definition hfuel {A} : hwr A := fun _ => RFuel.
Notation "x <~ r ;; k" := (hbind r (fun x => k)) (at level 61, r at next level, right associativity).

Inductive hw_result := HwOk (j : json) | HwRaise | HwFuel.
Definition finish (r : hres (json * bytes)) : hw_result :=
  match r with ROk (j, _) => HwOk j | RRaise => HwRaise | RFuel => HwFuel end.

(* ------------------------------------------------------------------ *)
(* udparsers/oe500                                                     *)

Definition read_sig (cd : chipdata) : hwr json :=
  a <~ hlift (get_mem 4) ;; b <~ hlift (get_mem 4) ;; c <~ hlift (get_mem 4) ;;
  s <~ hopt (get_signature cd (bytes_hex a) (bytes_hex b) (bytes_hex c)) ;;
  hret (JObj s).

(* for i in range(0, count): every round consumes 12 bytes or fails, so fuel > remaining length suffices *)
Fixpoint sig_loop (cd : chipdata) (fuel : nat) (count : N) : hwr (list json) :=
  if count =? 0 then hret [] else
  match fuel with
  | O => hfuel
  | S f => s <~ read_sig cd ;; t <~ sig_loop cd f (count - 1) ;; hret (s :: t)
  end.

Definition parse_signature_list (cd : chipdata) (data : bytes) : hw_result :=
  finish ((n <~ hlift (get_int 4) ;;
           l <~ sig_loop cd (S (length data)) n ;;
           hret (JObj [(L "Signature List", JArr l)])) data).

(* ' '.join(data_buf[i:i+4] for i in range(0, len, 4)).upper() *)
Definition data_text (d : bytes) : text := upper (join (L " ") (chunk 4 (bytes_hex d))).

Definition reg_line_fmt (name addr : text) (d : bytes) : text :=
  L "  " ++ ljust 25 32 (firstn 25 name) ++ L " (" ++ addr ++ L ") " ++ data_text d.

Definition read_reg (cd : chipdata) (model_ec : text) : hwr text :=
  rid <~ hlift (get_mem 3) ;; inst <~ hlift (get_int 1) ;; size <~ hlift (get_int 1) ;;
  d <~ hlift (get_memN size) ;;
  na <~ hopt (get_reg_data cd model_ec (bytes_hex rid) inst) ;;
  hret (reg_line_fmt (fst na) (snd na) d).

Fixpoint reg_loop (cd : chipdata) (model_ec : text) (fuel : nat) (count : N) : hwr (list text) :=
  if count =? 0 then hret [] else
  match fuel with
  | O => hfuel
  | S f => l <~ read_reg cd model_ec ;; t <~ reg_loop cd model_ec f (count - 1) ;; hret (l :: t)
  end.

Definition chip_line_fmt (desc : text) : text := ljust 60 42 (desc ++ L " ").

Fixpoint chip_loop (cd : chipdata) (f0 fuel : nat) (count : N) : hwr (list text) :=
  if count =? 0 then hret [] else
  match fuel with
  | O => hfuel
  | S f =>
      m <~ hlift (get_mem 4) ;; pos <~ hlift (get_int 2) ;; node <~ hlift (get_int 1) ;;
      nregs <~ hlift (get_int 4) ;;
      desc <~ hopt (get_chip_desc cd (bytes_hex m) node pos) ;;
      regs <~ reg_loop cd (bytes_hex m) f0 nregs ;;
      rest <~ chip_loop cd f0 f (count - 1) ;;
      hret (chip_line_fmt desc :: regs ++ rest)
  end.

Definition parse_register_dump (cd : chipdata) (data : bytes) : hw_result :=
  finish ((n <~ hlift (get_int 4) ;;
           l <~ chip_loop cd (S (length data)) (S (length data)) n ;;
           hret (JObj [(L "Register Dump", jstrs l)])) data).

(* data.tobytes().rstrip(b'\0').decode('utf8') then json.loads (Model/JsonLoads.v); if that raises, so does the plugin.
   Only where the model of json.loads does not decide (a float in the value, very deep nesting) the marker object
   {"@loads": s} stands for "whatever json.loads(s) gives" and the harness applies Python's own json.loads *)
Definition loads_marker (s : text) : json := JObj [(L "@loads", JStr s)].
Definition ffdc_of_text (s : text) : hw_result :=
  match JsonLoads.loads s with
  | JsonLoads.LOk j => HwOk (JObj [(L "Callout List FFDC", j)])
  | JsonLoads.LError => HwRaise
  | JsonLoads.LBeyond => HwOk (JObj [(L "Callout List FFDC", loads_marker s)])
  end.
Definition parse_callout_ffdc (data : bytes) : hw_result :=
  match utf8_decode (rstrip_nul data) with
  | Some s => ffdc_of_text s
  | None => HwRaise
  end.

Definition x0 (b : bytes) : text := L "0x" ++ bytes_hex b.

Definition parse_hb_scratch_regs (data : bytes) : hw_result :=
  finish ((ca <~ hlift (get_mem 4) ;; cv <~ hlift (get_mem 4) ;;
           sa <~ hlift (get_mem 8) ;; sv <~ hlift (get_mem 8) ;;
           hret (JObj [(L "Hostboot Scratch Registers",
                        JObj (obj_set (obj_set [] (x0 ca) (JStr (x0 cv))) (x0 sa) (JStr (x0 sv))))])) data).

Definition parse_scratch_reg_sig (data : bytes) : hw_result :=
  finish ((c <~ hlift (get_mem 4) ;; s <~ hlift (get_mem 4) ;;
           hret (JObj [(L "Scratch Register Error Signature",
                        JObj [(L "Chip ID", JStr (x0 c)); (L "Signature ID", JStr (x0 s))])])) data).

(* parseUDToJson(subtype, version, data) *)
Definition oe500_ud (cd : chipdata) (subtype version : N) (data : bytes) : hw_result :=
  if subtype =? 1 then parse_signature_list cd data
  else if subtype =? 2 then parse_register_dump cd data
  else if subtype =? 3 then parse_callout_ffdc data
  else if subtype =? 4 then parse_hb_scratch_regs data
  else if subtype =? 5 then parse_scratch_reg_sig data
  else HwOk JNull.

(* ------------------------------------------------------------------ *)
(* srcparsers/oe500 : parseSRCToJson(refcode, word2 .. word9)          *)

Definition primary_attention (refcode : text) : text :=
  if text_eqb (slice 6 8 refcode) (L "10") then L "system checkstop" else L "secondary analysis".

Definition oe500_src (cd : chipdata) (refcode : text) (words : list text) : hw_result :=
  match words with
  | [_; _; _; _; w6; w7; w8; _] =>
      match get_signature cd w6 w7 w8 with
      | Some s => HwOk (JObj [(L "Primary Attention", JStr (primary_attention refcode));
                              (L "Signature Description", JObj s)])
      | None => HwRaise
      end
  | _ => HwRaise
  end.
