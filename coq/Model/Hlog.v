(* Model of modules/io_drawer/hlog.py : parse_hlog_data() on an ABSTRACT field table.
   The header-file grammar (get_hlog_fields) is not modelled: the table (name, size) list is an argument;
   the harness obtains it from the real get_hlog_fields().  Definitions only. *)
From Coq Require Import List NArith Bool Arith.
From PV Require Import Base.Bytes Base.Lit Model.Hexdump.
Import ListNotations.
Open Scope N_scope.

Definition hfield := (text * nat)%type.          (* HistoryLogField(name, size) *)

(* the loop over the fields on a DataStream; [d] is the not yet consumed data (data[index:]).
   None = check_range's "assert 0 < num_bytes" fails (a declared size of 0; the header grammar only
   produces sizes 1 and 2) *)
Fixpoint hlog_loop (fields : list hfield) (d : bytes) : option (list text) :=
  match fields with
  | [] => Some []
  | (name, size) :: t =>
      if Nat.eqb size 0 then None
      else if Nat.leb size (length d) then                 (* stream.check_range(field.size) *)
        let v := be_val (firstn size d) 0 in               (* stream.get_int(field.size), big-endian unsigned *)
        match hlog_loop t (skipn size d) with
        | Some rest =>
            Some ((if v =? 0 then [] else [name ++ L ": 0x" ++ hexU (2 * size) v]) ++ rest)
        | None => None
        end
      else Some []                                         (* break *)
  end.

Definition parse_hlog (fields : list hfield) (d : bytes) : option (list text) :=
  match hlog_loop fields d with
  | Some ls =>
      Some ([L "Hex Dump"; L "--------"] ++ hexdump d ++ [ [] ]
            ++ [L "Non-Zero Field Values"; L "---------------------"] ++ ls)
  | None => None
  end.
