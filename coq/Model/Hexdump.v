(* Model of modules/pel/hexdump.py : hexdump() and parse().  No proofs here. *)
From Coq Require Import List NArith Bool Arith.
From PV Require Import Base.Bytes Base.Lit.
Import ListNotations.
Open Scope N_scope.

Definition cA : N := 65.  Definition cD : N := 68.  Definition cC : N := 67.
Definition sp : N := 32.  Definition dot : N := 46.  Definition nl : N := 10.

(* ---------- hexdump(data, bytes_per_line, bytes_per_chunk) ---------- *)

(* split into consecutive blocks of n (n >= 1); fuel = length l is enough *)
Fixpoint chunk_fuel (fuel n : nat) (l : bytes) : list bytes :=
  match fuel with
  | O => []
  | S f => match l with
           | [] => []
           | _ => firstn n l :: chunk_fuel f n (skipn n l)
           end
  end.
Definition chunk (n : nat) (l : bytes) : list bytes := chunk_fuel (length l) n l.

(* the hex column of one line: "%02X" per byte, two spaces before every chunk but the first *)
Fixpoint raw_col (bpc : nat) (j : nat) (l : bytes) : text :=
  match l with
  | [] => []
  | b :: t =>
      (if negb (Nat.eqb j 0) && Nat.eqb (Nat.modulo j bpc) 0 then [sp; sp] else [])
      ++ hexU 2 b ++ raw_col bpc (S j) t
  end.

Definition printable (b : N) : N := if (32 <=? b) && (b <? 127) then b else dot.
Definition text_col (l : bytes) : text := map printable l.

Definition num_chunks (bpl bpc : nat) : nat := Nat.div (bpl + bpc - 1) bpc.       (* math.ceil(bpl / bpc) *)
Definition char_per_line (bpl bpc : nat) : nat := bpl * 2 + 2 * num_chunks bpl bpc - 2.

Definition dump_line (bpl bpc : nat) (off : N) (l : bytes) : text :=
  hexU 8 off ++ repeat sp 5 ++ ljust (char_per_line bpl bpc) sp (raw_col bpc 0 l)
  ++ repeat sp 5 ++ ljust bpl sp (text_col l).

Fixpoint dump_lines (bpl bpc : nat) (off : N) (ls : list bytes) : list text :=
  match ls with
  | [] => []
  | l :: t => dump_line bpl bpc off l :: dump_lines bpl bpc (off + N.of_nat bpl) t
  end.

(* None: the argument assertion fails (bytes_per_line / bytes_per_chunk outside 1..256) *)
Definition hexdump_gen (bpl bpc : nat) (d : bytes) : option (list text) :=
  if (Nat.leb 1 bpl && Nat.leb bpl 256 && Nat.leb 1 bpc && Nat.leb bpc 256)%bool
  then Some (dump_lines bpl bpc 0 (chunk bpl d)) else None.

Definition hexdump (d : bytes) : list text := dump_lines 16 4 0 (chunk 16 d).

(* ---------- parse(lines, line_format) ---------- *)

(* one line against the template; hi = value of a pending high nibble *)
Fixpoint pl (fmt line : text) (hi : option N) : bytes :=
  match line, fmt with
  | c :: lt, f :: ft =>
      if f =? cA then (if is_hex c then pl ft lt hi else [])
      else if f =? cD then
        (if is_hex c then
           match hi with
           | Some h => (h * 16 + hexval c) :: pl ft lt None
           | None => pl ft lt (Some (hexval c))
           end
         else [])
      else if f =? cC then pl ft lt hi
      else if f =? c then pl ft lt hi else []
  | _, _ => []
  end.

Definition is_nl (c : N) : bool := c =? nl.

Definition parse_line (fmt line : text) : bytes :=
  let line := rstrip_by is_nl line in
  if Nat.leb (length line) (length fmt) then pl fmt line None else [].

Definition parse (fmt : text) (lines : list text) : bytes := flat_map (parse_line fmt) lines.

(* The implementation takes the byte from the two characters line[i-1:i+1]; that equals the stored high
   nibble exactly when every 'D' that completes a byte directly follows the 'D' that opened it.  This
   boolean checks that shape on a template (every maximal run of D has even length). *)
Fixpoint d_runs_even (fmt : text) (run : nat) : bool :=
  match fmt with
  | [] => Nat.even run
  | f :: t => if f =? cD then d_runs_even t (S run) else Nat.even run && d_runs_even t 0
  end.

Definition default_fmt : text :=
  L "AAAAAAAA     DDDDDDDD  DDDDDDDD  DDDDDDDD  DDDDDDDD     CCCCCCCCCCCCCCCC".
