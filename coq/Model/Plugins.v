(* The four module caches (userDataParsers, srcParsers, calloutParsers and the BMC SRC router's osrcParsers) as state, and
   the environment a decode sees through them.  Repaired behaviour: a cache entry is only ever written with the outcome of
   importing that module.  No proofs here. *)
From Coq Require Import List NArith Bool.
From PV Require Import Base.Bytes Base.Lit Base.Json Model.Render.
Import ListNotations.
Open Scope N_scope.

Record caches := {
  k_ud : list (text * option (N -> N -> bytes -> plugin_result));     (* userDataParsers: module name -> module or None *)
  k_src : list (text * option (text -> list text -> plugin_result));  (* srcParsers *)
  k_co : list (text * option (text -> plugin_result)) }.              (* calloutParsers *)

Definition no_caches : caches := {| k_ud := []; k_src := []; k_co := [] |}.

Fixpoint assoc {V} (l : list (text * V)) (k : text) : option V :=
  match l with [] => None | (k', v) :: t => if text_eqb k k' then Some v else assoc t k end.

Definition of_cached {F} (o : option F) : import_outcome F := match o with Some f => IFound f | None => INotFound end.

(* what a decode sees: a cached entry wins over importing *)
Definition cached_env (e : env) (k : caches) : env :=
  {| registry := registry e;
     comp_name := comp_name e;
     ud_import := fun m => match assoc (k_ud k) m with Some c => of_cached c | None => ud_import e m end;
     src_import := fun m => match assoc (k_src k) m with Some c => of_cached c | None => src_import e m end;
     co_import := fun m => match assoc (k_co k) m with Some c => of_cached c | None => co_import e m end |}.

(* what importing a module leaves in the cache (None = nothing is cached) *)
Definition ud_entry (e : env) (m : text) : option (option (N -> N -> bytes -> plugin_result)) :=
  match ud_import e m with IFound f => Some (Some f) | INotFound => Some None | IBroken _ => None end.
(* SRC.parse caches None on ANY import failure; the observable result ('' = no SRC details) is the same as for a missing module *)
Definition src_entry (e : env) (m : text) : option (option (text -> list text -> plugin_result)) :=
  match src_import e m with IFound f => Some (Some f) | INotFound | IBroken _ => Some None end.
Definition co_entry (e : env) (m : text) : option (option (text -> plugin_result)) :=
  match co_import e m with IFound f => Some (Some f) | INotFound => Some None | IBroken _ => None end.

Inductive cache_write :=
| WUd (m : text) | WSrc (m : text) | WCo (m : text).

Definition write (e : env) (k : caches) (w : cache_write) : caches :=
  match w with
  | WUd m => match assoc (k_ud k) m, ud_entry e m with
             | None, Some v => {| k_ud := (m, v) :: k_ud k; k_src := k_src k; k_co := k_co k |} | _, _ => k end
  | WSrc m => match assoc (k_src k) m, src_entry e m with
              | None, Some v => {| k_ud := k_ud k; k_src := (m, v) :: k_src k; k_co := k_co k |} | _, _ => k end
  | WCo m => match assoc (k_co k) m, co_entry e m with
             | None, Some v => {| k_ud := k_ud k; k_src := k_src k; k_co := (m, v) :: k_co k |} | _, _ => k end
  end.

(* any history of decodes leaves the caches in a state reached by such writes *)
Definition after (e : env) (history : list cache_write) : caches := fold_left (write e) history no_caches.
