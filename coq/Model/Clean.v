(* Model of the two --clean paths of peltool (repaired order): the steps that can fail, in program order, under an
   arbitrary fault schedule.  A step that faults raises; nothing after it runs. *)
From Coq Require Import List Bool NArith.
From PV Require Import Base.Bytes.
Import ListNotations.

Inductive step := OpenOut | Write | Close | Print | Flush | RemoveIn.
Definition step_eqb (a b : step) : bool :=
  match a, b with
  | OpenOut, OpenOut | Write, Write | Close, Close | Print, Print | Flush, Flush | RemoveIn, RemoveIn => true
  | _, _ => false
  end.

Inductive dec := DOk | DFiltered | DReject.        (* what parsePEL did with the input file *)
Definition faults := step -> bool.                 (* true: this operation raises OSError (ENOSPC / EIO / EPIPE) *)

(* steps attempted, in order; the last one is the one that raised, if any *)
Fixpoint exec (f : faults) (prog : list step) : list step :=
  match prog with
  | [] => []
  | s :: t => if f s then [s] else s :: exec f t
  end.

(* a step completed: it was attempted and did not fault *)
Definition done_ok (f : faults) (trace : list step) (s : step) : bool := existsb (step_eqb s) trace && negb (f s).

(* parseAndWriteOutput(file, dir, config, clean): the output file is written and closed, THEN the input is removed *)
Definition json_prog (d : dec) (clean : bool) : list step :=
  match d with DOk => [OpenOut; Write; Close] ++ (if clean then [RemoveIn] else []) | _ => [] end.
(* main() with --file: the document is printed and flushed, THEN the input is removed *)
Definition file_prog (d : dec) (clean : bool) : list step :=
  match d with DOk => Print :: (if clean then [Flush; RemoveIn] else []) | _ => [] end.

(* the with-statement closes the output file also when the write raised (cleanup), but nothing else runs after a fault *)
Definition json_trace (f : faults) (d : dec) (clean : bool) : list step :=
  match d with
  | DOk =>
      if f OpenOut then [OpenOut]
      else if f Write then [OpenOut; Write; Close]
      else OpenOut :: Write :: exec f (Close :: (if clean then [RemoveIn] else []))
  | _ => []
  end.
Definition file_trace (f : faults) (d : dec) (clean : bool) : list step := exec f (file_prog d clean).

Definition removed_in (f : faults) (trace : list step) : bool := done_ok f trace RemoveIn.
Definition json_complete (f : faults) (trace : list step) : bool :=
  done_ok f trace OpenOut && done_ok f trace Write && done_ok f trace Close.
Definition file_complete (f : faults) (trace : list step) : bool :=
  done_ok f trace Print && done_ok f trace Flush.

(* the order the code had before the repair: the input was removed inside the with-block, before flush/close; and
   --file removed it unconditionally *)
Definition old_json_trace (f : faults) (d : dec) (clean : bool) : list step :=
  match d with DOk => exec f ([OpenOut; Write] ++ (if clean then [RemoveIn] else []) ++ [Close]) | _ => [] end.
Definition old_file_trace (f : faults) (d : dec) (clean : bool) : list step :=
  exec f ((match d with DOk => [Print] | _ => [] end) ++ (if clean then [RemoveIn] else [])).

(* ---- the effect skeleton of a source function (extracted from the source text by harness/extract_clean.py) ----
   what of a function matters for "removed only after the output is complete": conditions on the decode result / the clean option /
   the hex option, `with open(out, "w")` blocks, writes, prints, flushes, removals, returns, try / except.  SUnknown = a call that
   can touch a file or stream and is none of the known forms. *)
Inductive skel :=
| SSeq (l : list skel)
| SIfDecoded (t e : skel) | SIfClean (t e : skel) | SIfCleanAndPrinted (t e : skel) | SIfHex (t e : skel) | SIfOther (cond : text) (t e : skel)
| SWithOut (body : skel)
| STry (exc : text) (body handler : skel)
| SLoop (body : skel) | SContinue | SBreak | SOpenIn | SOpenRaw
| SWrite | SPrint | SPrintHex | SFlush | SRemove | SStderr | SCallPrintFile
| SReturn (b : bool) | SReturnV (value : text)
| SUnknown (what : text).

(* what a skeleton does when nothing faults: the steps in order, and the value returned (None = fell off the end).
   dd: the PEL decoded and was selected; cl: --clean; hx: --hex; pr: what parseAndPrintPELFile returned.
   Conditions of the SIfOther kind (the input could not be opened) do not hold on these paths. *)
Fixpoint run_sk (dd cl hx pr : bool) (s : skel) : list step * option bool :=
  match s with
  | SSeq l =>
      (fix go (l : list skel) : list step * option bool :=
         match l with
         | [] => ([], None)
         | x :: t => match run_sk dd cl hx pr x with
                     | (a, Some v) => (a, Some v)
                     | (a, None) => let '(b, r) := go t in (a ++ b, r)
                     end
         end) l
  | SIfDecoded t e => run_sk dd cl hx pr (if dd then t else e)
  | SIfClean t e => run_sk dd cl hx pr (if cl then t else e)
  | SIfCleanAndPrinted t e => run_sk dd cl hx pr (if cl && pr then t else e)
  | SIfHex t e => run_sk dd cl hx pr (if hx then t else e)
  | SIfOther _ _ e => run_sk dd cl hx pr e
  | SWithOut b => let '(a, r) := run_sk dd cl hx pr b in (OpenOut :: a ++ [Close], r)
  | STry _ b _ => run_sk dd cl hx pr b
  | SWrite => ([Write], None)
  | SPrint | SPrintHex => ([Print], None)
  | SFlush => ([Flush], None)
  | SRemove => ([RemoveIn], None)
  | SLoop b => run_sk dd cl hx pr b
  | SStderr | SCallPrintFile | SUnknown _ | SContinue | SBreak | SOpenIn | SOpenRaw => ([], None)
  | SReturn b => ([], Some b)
  | SReturnV _ => ([], Some true)
  end.
