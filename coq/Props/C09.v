(* C09 — unreadable files in a PEL directory never disturb the output for the others. *)
From Coq Require Import List NArith Bool Arith Sorting.Permutation.
From PV Require Gen.CleanGen Spec.PublishedSkeletons Proofs.CleanSkelFacts.
From PV Require Import Model.Clean.
From PV Require Import Base.Bytes Base.Lit Base.Json Base.TextOrder Model.Cli Model.Pretty
                       Proofs.TextOrderFacts Proofs.CliFacts Proofs.PrettyFacts.
Import ListNotations.
Open Scope N_scope.

(* whatever else the directory contains (in any os.walk order): files the mode's decoder cannot decode - it raises or
   returns nothing for them - do not change which of the other files are presented, nor their order *)
Theorem C09_selection_unchanged : forall (p : text -> bool) ext r names good junk,
  Permutation names (good ++ junk) -> (forall j, In j junk -> p j = false) ->
  filter p (file_list ext r names) = filter p (file_list ext r good).
Proof. exact junk_invisible. Qed.
Print Assumptions C09_selection_unchanged.

(* hence standard output of --show-pel-count, --list and --all-pels is the same with and without them *)
Theorem C09_junk_invisible : forall d content c names good junk,
  Permutation names (good ++ junk) ->
  (forall j, In j junk -> is_got (d_count d (content j)) = false /\ is_got (d_summary d (content j)) = false /\ is_got (d_full d (content j)) = false) ->
  mode_count d c content names = mode_count d c content good /\
  mode_list d c content names = mode_list d c content good /\
  mode_all d c content names = mode_all d c content good.
Proof. exact junk_invisible_modes. Qed.
Print Assumptions C09_junk_invisible.

(* the count mode reads only the two headers: a file is invisible to it as soon as ITS decoder fails *)
Theorem C09_count_mode : forall d content c names good junk,
  Permutation names (good ++ junk) -> (forall j, In j junk -> is_got (d_count d (content j)) = false) ->
  mode_count d c content names = mode_count d c content good.
Proof.
  intros d content c names good junk P Hj. unfold mode_count, count_names.
  rewrite (junk_invisible (fun n => is_got (d_count d (content n))) (c_ext c) false names good junk P Hj). reflexivity.
Qed.
Print Assumptions C09_count_mode.

(* entries that cannot be opened at all (a link whose target is gone, a file purged after the listing: F14) are skipped the
   same way, alone or mixed with files the decoders reject *)
Theorem C09_unreadable : forall d oc c names good junk,
  Permutation names (good ++ junk) ->
  (forall j, In j junk -> oc j = None \/
     (is_got (d_count d (content_of oc j)) = false /\ is_got (d_summary d (content_of oc j)) = false /\ is_got (d_full d (content_of oc j)) = false)) ->
  mode_count_o d c oc names = mode_count_o d c oc good /\
  mode_list_o d c oc names = mode_list_o d c oc good /\
  mode_all_o d c oc names = mode_all_o d c oc good.
Proof. exact unreadable_invisible_modes. Qed.
Print Assumptions C09_unreadable.

(* ---- the tie to the source text: the per-file exception barrier ----
   Gen/CleanGen.v holds the effect skeletons of openPELFile and of the per-file loops of the directory modes, extracted on every run
   (harness/extract_clean.py).  They equal the published skeletons, in which (a) the helper opens under try / except OSError and answers
   None after a diagnostic on stderr, and (b) inside every per-file loop whatever prints, writes, removes or opens a file without the
   helper sits under try / except Exception with a handler that only reports on stderr. *)
Theorem C09_source_barriers :
  Gen.CleanGen.ok_clean = true /\
  Gen.CleanGen.sk_openPELFile = Spec.PublishedSkeletons.sk_openPELFile /\
  Gen.CleanGen.sk_extractAllPELsData = Spec.PublishedSkeletons.sk_extractAllPELsData /\
  Gen.CleanGen.sk_printPELCount = Spec.PublishedSkeletons.sk_printPELCount /\
  Gen.CleanGen.sk_extractAndSummarizePEL = Spec.PublishedSkeletons.sk_extractAndSummarizePEL /\
  Gen.CleanGen.sk_parsePelFromPLID = Spec.PublishedSkeletons.sk_parsePelFromPLID /\
  Gen.CleanGen.sk_parsePelFromSRCID = Spec.PublishedSkeletons.sk_parsePelFromSRCID /\
  Gen.CleanGen.sk_parsePelFromBmcID = Spec.PublishedSkeletons.sk_parsePelFromBmcID.
Proof. repeat split; reflexivity. Qed.
Print Assumptions C09_source_barriers.

Theorem C09_barriers_hold :
  (CleanSkelFacts.guarded false false Spec.PublishedSkeletons.sk_extractAllPELsData && CleanSkelFacts.guarded false false Spec.PublishedSkeletons.sk_printPELCount &&
   CleanSkelFacts.guarded false false Spec.PublishedSkeletons.sk_parsePelFromPLID && CleanSkelFacts.guarded false false Spec.PublishedSkeletons.sk_parsePelFromSRCID &&
   CleanSkelFacts.guarded false false Spec.PublishedSkeletons.sk_parsePelFromBmcID && CleanSkelFacts.guarded true false Spec.PublishedSkeletons.sk_extractAndSummarizePEL &&
   CleanSkelFacts.guarded true false Spec.PublishedSkeletons.sk_json = true) /\
  Spec.PublishedSkeletons.sk_openPELFile =
    SSeq [STry [79;83;69;114;114;111;114] (SSeq [SOpenRaw; SReturnV (L "open(file, 'rb')")]) (SSeq [SStderr; SReturn false])].
Proof. split; [exact CleanSkelFacts.directory_modes_guarded|exact CleanSkelFacts.open_helper_shape]. Qed.
Print Assumptions C09_barriers_hold.

(* the --all-pels output is one JSON array whatever the documents are (C06) *)
Theorem C09_all_is_one_array : forall docs tds, Forall2 complete docs tds ->
  tokens (all_output docs) = Some ([TP 91] ++ sep_tokens tds ++ [TP 93]).
Proof. exact all_output_tokens. Qed.
Print Assumptions C09_all_is_one_array.

Example C09_example :
  filter (fun n => negb (text_eqb n (L "junk"))) (file_list None false [L "b"; L "junk"; L "a"]) = [L "a"; L "b"].
Proof. vm_compute. reflexivity. Qed.
