(* C05 — malformed PELs are rejected cleanly: never a hang, never a decode from missing bytes. *)
From Coq Require Import List NArith ZArith Bool Arith.
From PV Require Gen.DataStreamGen Spec.PublishedDataStream.
From PV Require Import Base.Bytes Base.Lit Base.Json Base.Reader Base.PelTypes Model.Parse Model.Render Model.Pel Model.Env
                       Spec.Encode Spec.Choice
                       Proofs.ExactFacts Proofs.ExactSrc Proofs.TruncFacts Proofs.ProgressFacts.
Import ListNotations.
Open Scope N_scope.

(* Reads never go past the end: every proper prefix of a well-formed PEL is rejected (an exception escapes parsePEL),
   for every environment and option set under which the PEL itself would be considered.  This includes cuts inside a
   callout, where the decoder's one unchecked look-ahead (the substructure type) reads short. *)
Theorem C05_prefix_reject : forall e c consider p q,
  wf_pel p -> consider (p_uh p) = true -> strict_prefix q (encode p) -> decode e c consider q = Reject.
Proof. exact decode_prefix_rejected. Qed.
Print Assumptions C05_prefix_reject.

(* the same for any run of sections and for the callout list on its own *)
Theorem C05_sections_trunc : forall e c creator secs q, Forall wf_section secs ->
  strict_prefix q (flat_map enc_section secs) -> decode_sections e c creator (length secs) q = Some None.
Proof. exact decode_sections_trunc. Qed.
Print Assumptions C05_sections_trunc.
Theorem C05_callouts_trunc : forall l fuel wlen4 cur acc q,
  Forall wf_callout l -> (length l + 4 <= fuel)%nat -> wlen4 = cur + callouts_size l ->
  strict_prefix q (flat_map enc_callout l) -> parse_callout_list fuel wlen4 cur acc q = None.
Proof. exact parse_callout_list_trunc. Qed.
Print Assumptions C05_callouts_trunc.

(* Termination: the data-driven loops (callouts bounded by the declared word length, substructures by the bytes that
   remain, everything else by a count byte) never exhaust their fuel - on ANY byte string the model ends with a document,
   a filtered/bad-header outcome or a rejection. *)
Theorem C05_terminates : forall e c consider s, decode e c consider s <> OutOfFuel.
Proof. exact decode_never_out_of_fuel. Qed.
Print Assumptions C05_terminates.
Theorem C05_substructure_progress : forall fuel size cur acc s s',
  (length s < fuel)%nat -> parse_subs fuel size cur acc s <> Some (None, s').
Proof. exact parse_subs_progress. Qed.
Print Assumptions C05_substructure_progress.
Theorem C05_callout_progress : forall fuel wlen4 cur acc s s',
  wlen4 + 4 <= cur + 4 * N.of_nat fuel -> (1 <= fuel)%nat -> parse_callout_list fuel wlen4 cur acc s <> Some (None, s').
Proof. exact parse_callout_list_progress. Qed.
Print Assumptions C05_callout_progress.

(* non-vacuity: a generated PEL with an SRC and callouts; cutting its last byte makes the model reject it *)
Example C05_example :
  let p := build_pel 3 20 [1; 1; 0; 2; 3; 4; 5; 6; 7; 8; 9; 10; 11; 12; 13; 14; 15; 16; 17; 18; 19; 20; 21; 22; 23; 24; 25; 26; 27; 28; 29; 30; 31; 32; 33; 34; 35; 36; 37; 38; 39; 40] in
  let d := encode p in
  (exists doc eid, decode env0 {| allow_plugins := false |} (fun _ => true) d = OkDoc eid doc) /\
  decode env0 {| allow_plugins := false |} (fun _ => true) (removelast d) = Reject.
Proof. vm_compute. split; [eexists _, _; reflexivity|reflexivity]. Qed.

(* SOURCE-TEXT tie of the primitives every decoder reads through.  harness/extract_datastream.py extracts the statements of
   DataStream.check_range / inc_index / get_mem / get_int from pel/datastream.py on every run; they are the published ones, and
   none of the three range-checking methods contains an `assert` statement (which `python -O` would remove): a count below one
   and a read past the end raise in every interpreter mode, as the model's reader monad and the reader-language interpreter
   assume. *)
Theorem C05_source_primitives :
  Gen.DataStreamGen.ok_datastream = true /\
  Gen.DataStreamGen.ds_methods = Spec.PublishedDataStream.ds_methods /\
  Gen.DataStreamGen.ds_asserts = [].
Proof. repeat split; reflexivity. Qed.
Print Assumptions C05_source_primitives.
