(* C10 — look-ups by platform log id, BMC id, entry id and SRC return exactly the matches. *)
From Coq Require Import List NArith ZArith Bool Arith.
From PV Require Import Base.Bytes Base.Lit Base.Json Base.TextOrder Base.PelTypes Model.Select Model.Cli
                       Proofs.CliFacts Proofs.LookupFacts Proofs.SelectFacts.
Import ListNotations.
Open Scope N_scope.

(* X may be given with or without 0x / 0X and in either letter case: all six spellings normalise to the same 8 digits *)
Theorem C10_plid_spellings : forall v s, In s (plid_spellings v) -> process_id s = Some (hex_fixed hexdigU 8 v).
Proof. exact process_id_spellings. Qed.
Print Assumptions C10_plid_spellings.

(* the substring test against the displayed id ("0x" + eight digits) is numeric equality, for all 2^32 x 2^32 pairs,
   values below 0x10000000 included *)
Theorem C10_plid_exact : forall v w, v < 2 ^ 32 -> w < 2 ^ 32 ->
  substrb (hex_fixed hexdigU 8 v) (L "0x" ++ hex_fixed hexdigU 8 w) = (v =? w).
Proof. exact plid_match_exact. Qed.
Print Assumptions C10_plid_exact.

(* --plid X lists exactly the decodable PELs whose platform log id equals X *)
Theorem C10_plid_lists : forall d c content names x plid_of, x < 2 ^ 32 ->
  (forall n eid s, d_summary d (content n) = Got (eid, s) ->
     eid <> [] /\ plid_of n < 2 ^ 32 /\ summary_field s (L "PLID") = L "0x" ++ hex_fixed hexdigU 8 (plid_of n)) ->
  plid_names d c (hex_fixed hexdigU 8 x) content names =
  filter (fun n => is_got (d_summary d (content n)) && (plid_of n =? x)) (file_list (c_ext c) (c_rev c) names).
Proof. exact plid_lists_exactly. Qed.
Print Assumptions C10_plid_lists.

(* --id E / --delete E act on the first file, in directory order, whose name contains E; none -> "PEL not found" *)
Theorem C10_id_first : forall pid walk n, first_containing pid walk = Some n ->
  In n walk /\ substrb pid n = true /\ exists pre post, walk = pre ++ n :: post /\ forall m, In m pre -> substrb pid m = false.
Proof. exact first_containing_spec. Qed.
Print Assumptions C10_id_first.
Theorem C10_id_none : forall pid walk, first_containing pid walk = None -> forall n, In n walk -> substrb pid n = false.
Proof. exact first_containing_none. Qed.
Print Assumptions C10_id_none.

(* --bmc-id N displays a PEL whose BMC event log id is N whenever one exists (and decodes), else "PEL not found" *)
Theorem C10_bmcid_found : forall d obmc hexm id content walk,
  (exists n, In n walk /\ bmc_match d obmc id content n = true) ->
  exists n, In n walk /\ bmc_match d obmc id content n = true /\
    mode_bmcid d obmc hexm id content walk =
      match d_full d (content n) with Got (_, j) => if hexm then OutHex [content n] else OutAll [j] | _ => OutAll [] end.
Proof. exact bmcid_found. Qed.
Print Assumptions C10_bmcid_found.
Theorem C10_bmcid_not_found : forall d obmc hexm id content walk,
  (forall n, In n walk -> bmc_match d obmc id content n = false) -> mode_bmcid d obmc hexm id content walk = not_found.
Proof. exact bmcid_not_found. Qed.
Print Assumptions C10_bmcid_not_found.

(* hidden and non-serviceable PELs are found by the look-ups without extra options *)
Theorem C10_lookup_bypass : forall c u, every c = false -> term c = false -> svc c = false -> nsvc c = false -> hid c = false ->
  only c = false -> sevs c = [] -> lookup c = true -> consider c u = true.
Proof. exact lookup_considers_all. Qed.
Print Assumptions C10_lookup_bypass.

Example C10_example : process_id (L "0x0000000a") = Some (L "0000000A") /\
  substrb (L "00000001") (L "0x00000001") = true /\ substrb (L "00000001") (L "0x10000001") = false.
Proof. vm_compute. repeat split; reflexivity. Qed.
