(* C04 — user data is rendered from its content or preserved byte-for-byte as a hex dump. *)
From Coq Require Import List NArith ZArith Bool Arith.
From PV Require Base.Utf8.
From PV Require Import Base.Bytes Base.Lit Base.Json Base.PelTypes Model.Hexdump Model.Parse Model.Render Spec.Encode Gen.Tables
                       Proofs.HexdumpRoundtrip Proofs.RenderFacts Proofs.UdFacts
                       Model.Pretty Model.JsonLoads Proofs.JsonLoadsFacts.
Import ListNotations.
Open Scope N_scope.

Theorem C04_tables_agree :
  UserDataFormat_json = 1 /\ UserDataFormat_cbor = 2 /\ UserDataFormat_text = 3 /\ UserDataFormat_custom = 4 /\
  Gen.Tables.DEFAULT_LINE_FORMAT = default_fmt.
Proof. repeat split; vm_compute; reflexivity. Qed.
Print Assumptions C04_tables_agree.

(* whenever a section has no decoder - parser modules disabled, no module, a module that cannot be imported, one that raises
   or returns nothing, or a built-in sub-type without a renderer - the section appears and its "Data" parses back to the payload *)
Theorem C04_fallback_lossless : forall e c h cr d, fallback e c cr (h_comp h) (h_sub h) (h_ver h) d ->
  Forall (fun b => b < 256) d -> N.of_nat (length d) + 16 <= 2 ^ 32 ->
  exists o, render_ud e c h cr d = Some o /\ carries_dump o d.
Proof. exact ud_fallback_dump. Qed.
Print Assumptions C04_fallback_lossless.

(* an unrecognised section type is hex-dumped losslessly too *)
Theorem C04_unrecognised_lossless : forall h d, Forall (fun b => b < 256) d -> N.of_nat (length d) + 16 <= 2 ^ 32 ->
  carries_dump (render_other h d) d.
Proof. exact other_dump. Qed.
Print Assumptions C04_unrecognised_lossless.

(* a parser that failed leaves an error note next to the dump *)
Theorem C04_error_note : forall e c h cr d, parser_failed e c cr (h_comp h) (h_sub h) (h_ver h) d ->
  exists o er, render_ud e c h cr d = Some o /\ obj_get o (L "Error") = Some (JStr er).
Proof. exact ud_error_note. Qed.
Print Assumptions C04_error_note.

(* built-in text: the lines of the text with only non-printable characters replaced *)
Theorem C04_builtin_text : forall e c h cr txt,
  (is_bmc cr && (h_comp h =? 8192)) = true -> h_sub h = UserDataFormat_text ->
  Forall (fun x => x < 128) txt -> strip_ws txt = txt -> rstrip_nul txt = txt ->
  render_ud e c h cr txt = Some (obj_set (base_fields e h cr (L "Created by")) (L "Data") (jstrs (spec_lines txt))).
Proof. exact builtin_text_spec. Qed.
Print Assumptions C04_builtin_text.

(* built-in JSON: the section is what json.loads (Model/JsonLoads.v: CPython's scanner, OrderedDict pairs) makes of exactly the
   section's text - an object is merged into the section, any other value is shown under "Data", text that is not JSON is
   hex dumped; only for a value with a float or nested deeper than depth_limit the text is left to Python (marker) *)
Theorem C04_builtin_json : forall e c h cr txt,
  (is_bmc cr && (h_comp h =? 8192)) = true -> h_sub h = UserDataFormat_json ->
  Forall (fun x => x < 128) txt -> strip_ws txt = txt -> rstrip_nul txt = txt ->
  render_ud e c h cr txt =
    match loads txt with
    | LOk (JObj l) => Some (obj_update (base_fields e h cr (L "Created by")) l)
    | LOk j => Some (obj_set (base_fields e h cr (L "Created by")) (L "Data") j)
    | LError => Some (obj_set (base_fields e h cr (L "Created by")) (L "Data") (jstrs (hexdump txt)))
    | LBeyond => Some (base_fields e h cr (L "Created by") ++ [(L "@loads", JStr txt); (L "@fallback", jstrs (hexdump txt))])
    end.
Proof. exact builtin_json_spec. Qed.
Print Assumptions C04_builtin_json.

(* the same for any UTF-8 payload b, the encoding of a text t that carries no surrounding blanks or trailing NULs *)
Theorem C04_builtin_json_utf8 : forall e c h cr t b,
  (is_bmc cr && (h_comp h =? 8192)) = true -> h_sub h = UserDataFormat_json ->
  Utf8.utf8_encode t = Some b -> strip_ws t = t -> rstrip_nul t = t ->
  render_ud e c h cr b =
    match loads t with
    | LOk (JObj l) => Some (obj_update (base_fields e h cr (L "Created by")) l)
    | LOk j => Some (obj_set (base_fields e h cr (L "Created by")) (L "Data") j)
    | LError => Some (obj_set (base_fields e h cr (L "Created by")) (L "Data") (jstrs (hexdump b)))
    | LBeyond => Some (base_fields e h cr (L "Created by") ++ [(L "@loads", JStr t); (L "@fallback", jstrs (hexdump b))])
    end.
Proof. exact builtin_json_utf8. Qed.
Print Assumptions C04_builtin_json_utf8.

(* "appears as that same JSON value": whatever JSON text of the value j the section holds (any placement of blanks: its token
   sequence is that of j), for every value without floats, with strings Python round-trips (code points below 0x110000, no high surrogate directly followed by a low one - lone surrogates are fine), distinct keys within an object, integer
   literals within the digit limit and nesting within depth_limit, the section shows j itself *)
Theorem C04_builtin_json_value : forall e c h cr txt j,
  (is_bmc cr && (h_comp h =? 8192)) = true -> h_sub h = UserDataFormat_json ->
  Forall (fun x => x < 128) txt -> strip_ws txt = txt -> rstrip_nul txt = txt ->
  tokens txt = Some (toks j) -> wf_json j ->
  render_ud e c h cr txt =
    Some (match j with
          | JObj l => obj_update (base_fields e h cr (L "Created by")) l
          | _ => obj_set (base_fields e h cr (L "Created by")) (L "Data") j
          end).
Proof.
  intros e c h cr txt j Hb Hs Ha Hw Hn Ht Hj. rewrite (builtin_json_spec e c h cr txt Hb Hs Ha Hw Hn).
  rewrite (loads_of_tokens txt j Ht Hj). destruct j; reflexivity.
Qed.
Print Assumptions C04_builtin_json_value.

(* ... and so for ANY spelling of j (raw non-ASCII characters in strings, other escapes, -0 ...), with UTF-8 payloads *)
Theorem C04_builtin_json_spelled : forall e c h cr t b j T,
  (is_bmc cr && (h_comp h =? 8192)) = true -> h_sub h = UserDataFormat_json ->
  Utf8.utf8_encode t = Some b -> strip_ws t = t -> rstrip_nul t = t ->
  tokens t = Some T -> spells j T -> keys_ok j -> (jdepth j <= depth_limit)%nat ->
  render_ud e c h cr b =
    Some (match j with
          | JObj l => obj_update (base_fields e h cr (L "Created by")) l
          | _ => obj_set (base_fields e h cr (L "Created by")) (L "Data") j
          end).
Proof.
  intros e c h cr t b j T Hb Hs He Hw Hn Ht Hsp Hk Hd. rewrite (builtin_json_utf8 e c h cr t b Hb Hs He Hw Hn).
  rewrite (loads_spelling t j T Ht Hsp Hk Hd). destruct j; reflexivity.
Qed.
Print Assumptions C04_builtin_json_spelled.

(* the two printers of the json module produce such texts: json.dumps(j) and json.dumps(j, indent=4) *)
Theorem C04_json_texts : forall j, has_float j = false ->
  tokens (render j) = Some (toks j) /\ tokens (dumps4 0 j) = Some (toks j).
Proof. intros j H. split; apply lexes_tokens; [apply lexes_render|apply lexes_dumps4]; exact H. Qed.
Print Assumptions C04_json_texts.

(* text that json.loads rejects is preserved: the "Data" lines parse back to the text *)
Theorem C04_builtin_not_json : forall e c h cr txt,
  (is_bmc cr && (h_comp h =? 8192)) = true -> h_sub h = UserDataFormat_json ->
  Forall (fun x => x < 128) txt -> strip_ws txt = txt -> rstrip_nul txt = txt ->
  N.of_nat (length txt) + 16 <= 2 ^ 32 -> loads txt = LError ->
  render_ud e c h cr txt = Some (obj_set (base_fields e h cr (L "Created by")) (L "Data") (jstrs (hexdump txt))) /\ parse default_fmt (hexdump txt) = txt.
Proof.
  intros e c h cr txt Hb Hs Ha Hw Hn Hl He. rewrite (builtin_json_spec e c h cr txt Hb Hs Ha Hw Hn), He. split; [reflexivity|].
  apply dump_recovers; [|exact Hl]. eapply Forall_impl; [|exact Ha]. intros x Hx. cbv beta in Hx. apply N.lt_trans with 128; [exact Hx|reflexivity].
Qed.
Print Assumptions C04_builtin_not_json.

Example C04_json_example :
  (loads (L "{""a"": [1, -20, ""x\u00e9\ud83d\ude00""], ""b"": {}, ""a"": null}") =
     LOk (JObj [(L "a", JNull); (L "b", JObj [])])) /\
  (loads (L "[1, 2") = LError) /\ (loads (L "1.5") = LBeyond) /\
  (loads (L "[1, -20, ""x\u00e9\ud83d\ude00""]") = LOk (JArr [JNum 1; JNum (-20); JStr [120; 233; 128512]])).
Proof. repeat split; vm_compute; reflexivity. Qed.

Example C04_example : spec_lines (L "ab" ++ [10; 1] ++ L "c" ++ [10]) = [L "ab"; L ".c"].
Proof. vm_compute. reflexivity. Qed.
