(* C04 — user data is rendered from its content or preserved byte-for-byte as a hex dump. *)
From Coq Require Import List NArith ZArith Bool Arith.
From PV Require Import Base.Bytes Base.Lit Base.Json Base.PelTypes Model.Hexdump Model.Parse Model.Render Spec.Encode Gen.Tables
                       Proofs.HexdumpRoundtrip Proofs.RenderFacts Proofs.UdFacts.
Import ListNotations.
Open Scope N_scope.

Theorem C04_tables_agree :
  UserDataFormat_json = 1 /\ UserDataFormat_cbor = 2 /\ UserDataFormat_text = 3 /\ UserDataFormat_custom = 4 /\
  Gen.Tables.DEFAULT_LINE_FORMAT = default_fmt.
Proof. repeat split; vm_compute; reflexivity. Qed.
Print Assumptions C04_tables_agree.

(* whenever a section has no decoder - parser modules disabled, no module, a module that cannot be imported, one that raises
   or returns nothing, or a built-in sub-type without a renderer - the section appears and its "Data" parses back to the payload *)
Theorem C04_fallback_lossless : forall e c h cr d, fallback e c cr (h_comp h) (h_sub h) (h_ver h) d ->
  Forall (fun b => b < 256) d -> N.of_nat (length d) + 16 <= 2 ^ 32 ->
  exists o, render_ud e c h cr d = Some o /\ carries_dump o d.
Proof. exact ud_fallback_dump. Qed.
Print Assumptions C04_fallback_lossless.

(* an unrecognised section type is hex-dumped losslessly too *)
Theorem C04_unrecognised_lossless : forall h d, Forall (fun b => b < 256) d -> N.of_nat (length d) + 16 <= 2 ^ 32 ->
  carries_dump (render_other h d) d.
Proof. exact other_dump. Qed.
Print Assumptions C04_unrecognised_lossless.

(* a parser that failed leaves an error note next to the dump *)
Theorem C04_error_note : forall e c h cr d, parser_failed e c cr (h_comp h) (h_sub h) (h_ver h) d ->
  exists o er, render_ud e c h cr d = Some o /\ obj_get o (L "Error") = Some (JStr er).
Proof. exact ud_error_note. Qed.
Print Assumptions C04_error_note.

(* built-in text: the lines of the text with only non-printable characters replaced *)
Theorem C04_builtin_text : forall e c h cr txt,
  (is_bmc cr && (h_comp h =? 8192)) = true -> h_sub h = UserDataFormat_text ->
  Forall (fun x => x < 128) txt -> strip_ws txt = txt -> rstrip_nul txt = txt ->
  render_ud e c h cr txt = Some (obj_set (base_fields e h cr (L "Created by")) (L "Data") (jstrs (spec_lines txt))).
Proof. exact builtin_text_spec. Qed.
Print Assumptions C04_builtin_text.

(* built-in JSON: exactly the section's text is what json.loads is applied to (the harness applies Python's json.loads to the
   marked text: an object is merged into the section, any other value is shown under "Data") *)
Theorem C04_builtin_json : forall e c h cr txt,
  (is_bmc cr && (h_comp h =? 8192)) = true -> h_sub h = UserDataFormat_json ->
  Forall (fun x => x < 128) txt -> strip_ws txt = txt -> rstrip_nul txt = txt ->
  render_ud e c h cr txt =
    Some (base_fields e h cr (L "Created by") ++ [(L "@loads", JStr txt); (L "@fallback", jstrs (hexdump txt))]).
Proof. exact builtin_json_spec. Qed.
Print Assumptions C04_builtin_json.

Example C04_example : spec_lines (L "ab" ++ [10; 1] ++ L "c" ++ [10]) = [L "ab"; L ".c"].
Proof. vm_compute. reflexivity. Qed.
