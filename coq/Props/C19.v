(* C19 — decoding a PEL gives the same result whatever was decoded before it. *)
From Coq Require Import List NArith ZArith Bool Arith.
From PV Require Import Base.Bytes Base.Lit Base.Json Base.PelTypes Model.Render Model.Pel Model.Plugins Proofs.EnvFacts Proofs.CacheFacts.
Import ListNotations.
Open Scope N_scope.

(* The only state that survives a decode are the parser-module caches.  Every write into them stores the outcome of importing
   that module ([write]); [after e history] is the state after ANY history of such writes (any sequence of PELs, succeeded or
   failed, any creator/component mix). *)

(* the invariant: every cached entry is what a fresh import of that module gives; it holds initially and is preserved *)
Theorem C19_invariant : forall e history, cache_ok e (after e history).
Proof. exact cache_ok_after. Qed.
Print Assumptions C19_invariant.

(* the decode depends on the environment only through the answers of its look-ups *)
Theorem C19_lookups_only : forall c e1 e2, env_equiv c e1 e2 -> forall consider data, decode e1 c consider data = decode e2 c consider data.
Proof. exact decode_equiv. Qed.
Print Assumptions C19_lookups_only.

(* history independence: the document (or failure) for a PEL is the one a fresh process produces - for the full decode, the
   --list summary and the --show-pel-count decision *)
Theorem C19_history_independent : forall e history c consider data,
  decode (cached_env e (after e history)) c consider data = decode e c consider data.
Proof. exact decode_history_independent. Qed.
Print Assumptions C19_history_independent.
Theorem C19_summary_history_independent : forall e history c consider data,
  decode_summary (cached_env e (after e history)) c consider data = decode_summary e c consider data.
Proof. exact summary_history_independent. Qed.
Print Assumptions C19_summary_history_independent.
Theorem C19_count_history_independent : forall e history consider data,
  decode_count (cached_env e (after e history)) consider data = decode_count e consider data.
Proof. exact count_history_independent. Qed.
Print Assumptions C19_count_history_independent.

(* the invariant is what matters: a cache holding "absent" for a module that exists (what filing a parser's failure as an
   import failure would leave behind) changes the output of a later decode *)
Theorem C19_inconsistent_cache_matters :
  exists e k c data, ~ cache_ok e k /\ decode (cached_env e k) c (fun _ => true) data <> decode e c (fun _ => true) data.
Proof. exact inconsistent_cache_matters. Qed.
Print Assumptions C19_inconsistent_cache_matters.
