(* C17 — an I/O-drawer dump is split into ILOG and trace regions that partition it.
   Only statements; every proof is [exact] of a lemma from Proofs/DumpFacts.v.
   [parse_dump ptes strs d] / [parse_dump_file ptes strs lines] are the models of
   io_drawer.dump.parse_dump_data / parse_dump_file (Model/Dump.v) over the parsed PTE table and trace-string
   table (abstract, as in C14 / C15; the harness hands over the tables the real parsers read).
   The right-hand sides are specification-side definitions (Spec/DumpSpec.v): [spec_offsets] finds the
   recognised headers by testing every position in address order (no search routine, no sort),
   [ilog_region] / [trace_regions] cut the dump there, [spec_dump] puts the stand-alone decoders' output
   under the headings.  "Recognised header" = the FIRST occurrence of each of the six patterns (the reading
   the repository's tests pin); a repeated header is data of the region it lies in. *)
From Coq Require Import List NArith Bool Arith Sorted.
From PV Require Import Base.Bytes Base.Lit Model.Hexdump Spec.DumpFormats Model.Ilog Model.Trace Model.Dump
                       Spec.DumpSpec Gen.Tables Proofs.HexdumpFacts Proofs.DumpFacts.
Import ListNotations.
Open Scope N_scope.

(* the constants the code ships are the ones the theorems are about (regenerated from /repo every run) *)
Theorem C17_constants_agree :
  Gen.Tables.TRACE_BUFFER_HEADER_START = [2; 32; 1; 66] /\
  Gen.Tables.TraceBufferHeader_BUFFER_NAMES = [L "IICS"; L "IICM"; L "POWR"; L "FANS"; L "INFO"; L "ERRL"] /\
  header_patterns = spec_patterns /\
  Gen.Tables.DIVIDER_LINE = repeat 45 73 /\
  Gen.Tables.HEX_DUMP_LINE_FORMATS = [fmt1; fmt2].
Proof. exact patterns_agree. Qed.
Print Assumptions C17_constants_agree.

Theorem C17_patterns :
  spec_patterns = [ [2;32;1;66; 73;73;67;83]; [2;32;1;66; 73;73;67;77]; [2;32;1;66; 80;79;87;82];
                    [2;32;1;66; 70;65;78;83]; [2;32;1;66; 73;78;70;79]; [2;32;1;66; 69;82;82;76] ].
Proof. exact patterns_literal. Qed.
Print Assumptions C17_patterns.

(* six pairwise different 8-byte patterns, no two of which can overlap in a dump *)
Theorem C17_patterns_shape :
  separated spec_patterns = true /\ no_overlap spec_patterns = true /\
  Forall (fun p => length p = 8%nat) spec_patterns /\ length spec_patterns = 6%nat.
Proof. exact spec_patterns_shape. Qed.
Print Assumptions C17_patterns_shape.

(* search + sorted() find exactly the offsets the specification lists, in the same order *)
Theorem C17_offsets : forall d, dump_offsets header_patterns d = spec_offsets spec_patterns d.
Proof. exact shipped_offsets. Qed.
Print Assumptions C17_offsets.

(* all byte strings: the regions, in the order reported, concatenate to the dump - every byte exactly once *)
Theorem C17_partition : forall d, concat (ilog_region spec_patterns d :: trace_regions spec_patterns d) = d.
Proof. exact (regions_partition spec_patterns). Qed.
Print Assumptions C17_partition.

(* ... and so do the slices the model itself takes, for any list of patterns whatsoever *)
Theorem C17_partition_model : forall pats d,
  concat (ilog_slice d (dump_offsets pats d) :: trace_slices d (dump_offsets pats d)) = d.
Proof. exact model_regions_partition. Qed.
Print Assumptions C17_partition_model.

(* address order: the offsets are strictly increasing and are exactly the recognised headers; there is one
   trace region per offset; region k is the bytes from offset k up to offset k+1 (the end for the last one)
   and begins with the complete header pattern that is recognised there *)
Theorem C17_order : forall d,
  let offs := spec_offsets spec_patterns d in
  StronglySorted lt offs /\
  (forall i, In i offs <-> recognised spec_patterns d i) /\
  length (trace_regions spec_patterns d) = length offs /\
  forall k o, nth_error offs k = Some o ->
    exists p rest, In p spec_patterns /\ first_at p d o /\
      nth_error (trace_regions spec_patterns d) k = Some (p ++ rest) /\
      p ++ rest = firstn (nth (S k) offs (length d) - o) (skipn o d).
Proof. exact shipped_order. Qed.
Print Assumptions C17_order.

(* the ILOG region is everything before the earliest recognised header (everything if there is none):
   no recognised header, and in fact no occurrence of any of the six patterns, begins before its end, and
   taken on its own it contains none *)
Theorem C17_ilog_first : forall d,
  let m := hd (length d) (spec_offsets spec_patterns d) in
  ilog_region spec_patterns d = firstn m d /\
  (m <= length d)%nat /\
  (forall i, recognised spec_patterns d i -> (m <= i)%nat) /\
  (forall p j, In p spec_patterns -> occurs_at p d j -> (m <= j)%nat) /\
  (forall p j, In p spec_patterns -> p <> [] -> ~ occurs_at p (ilog_region spec_patterns d) j).
Proof. exact (ilog_region_first spec_patterns). Qed.
Print Assumptions C17_ilog_first.

(* the report: "ILOG" heading, blank, the stand-alone ILOG decoder's lines for the ILOG region, blank, divider,
   blank; then the same under "Trace" with the stand-alone trace decoder's lines for every trace region in
   address order ([spec_dump], Spec/DumpSpec.v); empty input gives no output *)
Theorem C17_compose : forall ptes strs d, parse_dump ptes strs d = spec_dump spec_patterns ptes strs d.
Proof. exact parse_dump_spec. Qed.
Print Assumptions C17_compose.

Theorem C17_empty : forall ptes strs, parse_dump ptes strs [] = DumpOk [].
Proof. exact parse_dump_empty. Qed.
Print Assumptions C17_empty.

(* the only outcomes are a report or "outside the modelled %-format / pattern fragment" *)
Theorem C17_total : forall ptes strs d,
  parse_dump ptes strs d <> DumpRaise /\ parse_dump ptes strs d <> DumpOutOfFuel.
Proof. exact parse_dump_total. Qed.
Print Assumptions C17_total.

(* a dump file in either hex format (upper- or lower-case digits: C13_digits; short last line included;
   the empty dump included) decodes exactly like its raw bytes *)
Theorem C17_file1 : forall ptes strs dig d, good_dig dig -> Forall (fun b => b < 256) d ->
  parse_dump_file ptes strs (render1 dig d) = parse_dump ptes strs d.
Proof. exact parse_dump_file_render1. Qed.
Print Assumptions C17_file1.
Theorem C17_file2 : forall ptes strs dig d, good_dig dig -> Forall (fun b => b < 256) d ->
  parse_dump_file ptes strs (render2 dig d) = parse_dump ptes strs d.
Proof. exact parse_dump_file_render2. Qed.
Print Assumptions C17_file2.

(* the auto-detection: format 1 is tried first and reads a format-1 file completely; it reads nothing at
   all from a format-2 file, which is then read completely by format 2 *)
Theorem C17_detection : forall dig d, good_dig dig -> Forall (fun b => b < 256) d -> d <> [] ->
  first_nonempty [fmt1; fmt2] (render1 dig d) = d /\ first_nonempty [fmt1; fmt2] (render2 dig d) = d /\
  parse fmt1 (render2 dig d) = [].
Proof. exact detection. Qed.
Print Assumptions C17_detection.

(* the function the extracted binary evaluates is the model *)
Theorem C17_fast : forall pats ptes strs d, dump_fast pats ptes strs d = parse_dump_with pats ptes strs d.
Proof. exact dump_fast_eq. Qed.
Print Assumptions C17_fast.
Theorem C17_file_fast : forall ptes strs lines, dump_file_fast ptes strs lines = parse_dump_file ptes strs lines.
Proof. exact dump_file_fast_eq. Qed.
Print Assumptions C17_file_fast.

(* non-vacuity: one ILOG entry followed by the bare name "FANS" (ILOG data), a complete FANS buffer with one
   entry, a 10-byte IICS region, and a second FANS header that is data of the IICS region; the same through
   both file formats *)
Example C17_example :
  let ptes := [(L "0101****", L "Fan presence 0x%02X, flash = %c", [4; 3])] in
  let strs := [mkTString 32413714 (L "I> fan %d speed %d") (L "fan.cpp(324)")] in
  let d := [141;227;223;160;1;1;68;239] ++ L "FANS" ++
           [2;32;1;66] ++ L "FANS" ++ [32;32;32;32;0;0;0;0; 0;0;0;0; 0;0;0;60; 0;0;0;254; 0;0;0;84] ++
           [138;223; 1;134; 0;8; 70;84; 1;238;152;18; 0;0;1;68; 0;0;250;4; 0;0;190;239; 0;0;0;28] ++
           [2;32;1;66] ++ L "IICS" ++ [7;9] ++ [2;32;1;66] ++ L "FANS" in
  spec_offsets spec_patterns d = [12; 72]%nat /\
  map (@length N) (ilog_region spec_patterns d :: trace_regions spec_patterns d) = [12; 60; 18]%nat /\
  parse_dump ptes strs d = DumpOk
    [L "ILOG"; [];
     L "hh:mm:ss seq  pppppppp description";
     L "-------- ---- -------- ------------------------------------";
     L "10:05:23 DFA0 010144EF Fan presence 0xEF, flash = D";
     []; L "-------------------------------------------------------------------------"; [];
     L "Trace"; [];
     L "Component: FANS"; L "Version: 2"; L "Size: 60"; L "Times Wrapped: 254"; [];
     L "HH:MM:SS Seq  Line  Entry Data"; L "-------- ---- ----- ----------";
     L " 9:52:31 0186   324 I> fan 64004 speed 48879";
     []; L "-------------------------------------------------------------------------"; [];
     L "Trace"; [];
     L "Unable to parse trace data.";
     L "00000000     02200142  49494353  07090220  01424641     . .BIICS... .BFA";
     L "00000010     4E53                                       NS              ";
     []; L "-------------------------------------------------------------------------"; []] /\
  parse_dump_file ptes strs (render1 hexdigU d) = parse_dump ptes strs d /\
  parse_dump_file ptes strs (render2 hexdigL d) = parse_dump ptes strs d.
Proof. vm_compute. repeat split; reflexivity. Qed.
