(* C03 — SRC sections display the encoded words, flags and every callout faithfully. *)
From Coq Require Import List NArith ZArith Bool Arith.
From PV Require Gen.Layouts Spec.PublishedLayouts Model.StreamProg Gen.Readers Proofs.ReaderSrcFacts Spec.PublishedCalloutLoop.
From PV Require Import Base.Bytes Base.Lit Base.Json Base.Reader Base.PelTypes Model.Parse Model.Render Spec.Encode Spec.DocOf Gen.Tables
                       Proofs.SrcFacts Proofs.RenderFacts Proofs.SrcRenderFacts Proofs.RegistryFacts.
Import ListNotations.
Open Scope N_scope.

Theorem C03_tables_agree :
  (Flags_pnSupplied = 8 /\ Flags_ccinSupplied = 4 /\ Flags_maintProcSupplied = 2 /\ Flags_snSupplied = 1 /\ HeaderFlags_additionalSections = 1) /\
  Gen.Tables.failingComponentType = PublishedTables.failingComponentType /\
  Gen.Tables.calloutPriorityValues = PublishedTables.calloutPriorityValues /\
  Gen.Tables.SRCType_bmcError = L "BD" /\ Gen.Tables.SRCType_powerError = L "11" /\ Gen.Tables.SRCType_hostbootError = L "BC" /\
  HeaderFlags_virtualProgressSRC = 128 /\ HeaderFlags_i5OSServiceEventBit = 16 /\ HeaderFlags_hypDumpInit = 4 /\
  ErrorStatusFlags_terminateFwErr = 536870912 /\ ErrorStatusFlags_deconfigured = 33554432 /\ ErrorStatusFlags_guarded = 16777216.
Proof. exact (conj flags_agree tables_agree_src). Qed.
Print Assumptions C03_tables_agree.

(* the substructure walk of one callout reads exactly the encoded substructures, whatever follows *)
Theorem C03_substructures_exact : forall ss fuel size cur acc rest,
  Forall wf_sub ss -> (length ss < fuel)%nat -> size = cur + subs_size ss ->
  parse_subs fuel size cur acc (flat_map enc_sub ss ++ rest) = Some (Some (rev acc ++ ss), rest).
Proof. exact parse_subs_exact. Qed.
Print Assumptions C03_substructures_exact.

(* the callout subsection lists exactly the encoded callouts, in order, and stops at the subsection's declared length *)
Theorem C03_callouts_exact : forall l fuel wlen4 cur acc rest,
  Forall wf_callout l -> (length l + 4 <= fuel)%nat -> wlen4 = cur + callouts_size l ->
  parse_callout_list fuel wlen4 cur acc (flat_map enc_callout l ++ rest) = Some (Some (rev acc ++ l), rest).
Proof. exact parse_callout_list_exact. Qed.
Print Assumptions C03_callouts_exact.

(* the whole SRC body is read back into exactly the stored fields, for any continuation *)
Theorem C03_src_fields : forall s rest, wf_src s -> parse_src (enc_src s ++ rest) = Some (Some s, rest).
Proof. exact parse_src_enc. Qed.
Print Assumptions C03_src_fields.

(* each callout shows its priority, location code, FRU type, part number / procedure (+ description), CCIN, serial number,
   PCE MTMS / name and MRU ids as encoded; Callout Count is their number *)
Theorem C03_callout_display : forall e c creator co, structured e -> wf_callout co ->
  option_map JObj (render_callout e c creator co) = Some (doc_callout (sp_of e) (allow_plugins c) creator co).
Proof. exact render_callout_spec. Qed.
Print Assumptions C03_callout_display.
Theorem C03_callouts_display : forall e c creator cs, structured e -> wf_callouts cs ->
  render_callouts e c creator cs =
    Some [(L "Callout Count", num (N.of_nat (length (cs_list cs))));
          (L "Callouts", JArr (map (doc_callout (sp_of e) (allow_plugins c) creator) (cs_list cs)))].
Proof. exact render_callouts_spec. Qed.
Print Assumptions C03_callouts_display.

(* reference code, word count, hex words 2..9, format/version, the six flag bits, backplane CCIN: as the specification says *)
Theorem C03_src_display : forall e c h creator s, structured e -> wf_hdr h -> wf_src s ->
  error_details e (s_words s) (s_ascii s) <> None ->
  render_src e c h [creator] s = Some (doc_src (se_of e) (sp_of e) (allow_plugins c) creator h s).
Proof. exact render_src_spec. Qed.
Print Assumptions C03_src_display.


(* ---- the tie to the source text ----
   the SRC section's fixed part and the FRU / PCE identity substructures are read by the source with these primitives, widths,
   conditions and in this order, and displayed through these expressions (Gen/Layouts.v, extracted on every run by
   harness/extract_layouts.py, equals the published tables) *)
Theorem C03_source_layouts :
  Gen.Layouts.ok_SRC = true /\ Gen.Layouts.rd_SRC = Spec.PublishedLayouts.rd_SRC /\ Gen.Layouts.sh_SRC = Spec.PublishedLayouts.sh_SRC /\
  Gen.Layouts.ok_FRUIdentity = true /\ Gen.Layouts.rd_FRUIdentity = Spec.PublishedLayouts.rd_FRUIdentity /\
  Gen.Layouts.ok_PCEIdentity = true /\ Gen.Layouts.rd_PCEIdentity = Spec.PublishedLayouts.rd_PCEIdentity.
Proof. repeat split; reflexivity. Qed.
Print Assumptions C03_source_layouts.

(* SOURCE-TEXT tie of the callout constructors, beyond the frozen layout tables above.
   harness/extract_readers.py translates the statements of FRUIdentity.__init__, PCEIdentity.__init__, MRU.__init__ and
   Callout.__init__ (src.py) into programs of the reader language of Model/StreamProg.v (Gen/Readers.v, regenerated every run);
   for EVERY byte string, running the translated program is the model's reader:
   - the three substructure constructors complete exactly when parse_fru / parse_pce / parse_mru succeed, and then the flags, size,
     raw identity fields, the (priority, id) pairs in order, the bytes left and the flattened size they leave in
     self.flattenedSize are the model's; a DataStream assertion, or the early return of a PCE whose size field is below 24,
     is the model's rejection;
   - the straight part of Callout.__init__ is callout_head, and leaves 4 + location-code length in currentSize;
   - one unrolling of the model's substructure loop parse_subs IS one evaluation of the translated loop condition and one run
     of the translated loop body (peek at the two type bytes, call of the constructor chosen by 'ID' / 'PE' / 'MR' on the same
     stream, currentSize advanced by the constructor's flattened size, `break` on any other type), the next round starting
     from the currentSize and the bytes the translated body has left. *)
Theorem C03_source_fru_reader : forall d,
  match StreamProg.run Gen.Readers.prog_fru (StreamProg.init d) with
  | StreamProg.RFall s =>
      parse_fru d = Some (ReaderSrcFacts.fru_of s, StreamProg.s_rest s) /\
      StreamProg.geti (StreamProg.s_ints s) (L "self.flattenedSize") = Some (Z.of_N (fru_flat (ReaderSrcFacts.fru_of s)))
  | StreamProg.RErr => parse_fru d = None
  | _ => False
  end.
Proof. exact ReaderSrcFacts.fru_prog_correct. Qed.
Print Assumptions C03_source_fru_reader.
Theorem C03_source_pce_reader : forall d,
  match StreamProg.run Gen.Readers.prog_pce (StreamProg.init d) with
  | StreamProg.RFall s =>
      parse_pce d = Some (ReaderSrcFacts.pce_of s, StreamProg.s_rest s) /\
      StreamProg.geti (StreamProg.s_ints s) (L "self.flattenedSize") = Some (Z.of_N (p_size (ReaderSrcFacts.pce_of s)))
  | StreamProg.RErr => parse_pce d = None
  | StreamProg.RRet false _ => parse_pce d = None
  | _ => False
  end.
Proof. exact ReaderSrcFacts.pce_prog_correct. Qed.
Print Assumptions C03_source_pce_reader.
Theorem C03_source_mru_reader : forall d,
  match StreamProg.run Gen.Readers.prog_mru (StreamProg.init d) with
  | StreamProg.RFall s =>
      parse_mru d = Some (ReaderSrcFacts.mru_of s, StreamProg.s_rest s) /\
      StreamProg.geti (StreamProg.s_ints s) (L "self.flattenedSize") = Some (Z.of_N (m_size (ReaderSrcFacts.mru_of s)))
  | StreamProg.RErr => parse_mru d = None
  | _ => False
  end.
Proof. exact ReaderSrcFacts.mru_prog_correct. Qed.
Print Assumptions C03_source_mru_reader.
Theorem C03_source_callout_head : forall d,
  match StreamProg.run Gen.Readers.prog_callout_head (StreamProg.init d) with
  | StreamProg.RFall s =>
      callout_head d = Some ((StreamProg.int_of s (L "self.size"), StreamProg.int_of s (L "self.flags"),
                              StreamProg.int_of s (L "self.priority"), StreamProg.mem_of s (L "self.locationCode")),
                             StreamProg.s_rest s) /\
      StreamProg.int_of s (L "currentSize") = (4 + N.of_nat (length (StreamProg.mem_of s (L "self.locationCode"))))%N
  | StreamProg.RErr => callout_head d = None
  | _ => False
  end.
Proof. exact ReaderSrcFacts.head_prog_correct. Qed.
Print Assumptions C03_source_callout_head.
Theorem C03_source_substructure_loop : forall f size cur acc d,
  parse_subs (S f) size cur acc d = ReaderSrcFacts.subs_step f size cur acc d.
Proof. exact ReaderSrcFacts.subs_step_correct. Qed.
Print Assumptions C03_source_substructure_loop.

(* the fixed part of the SRC section itself: SRC.toJSON as translated, up to the statement that starts building the display (nothing
   after it mentions the stream), reads the six header fields, `for i in range(8)` the hex words, and the 32-byte reference code:
   for EVERY byte string that is the model's fixed reader, and parse_src is that reader followed by the word-count check and
   the optional callout subsection *)
Theorem C03_source_src_fixed : forall d,
  match StreamProg.run Gen.Readers.prog_src_head (StreamProg.init d) with
  | StreamProg.RFall s => ReaderSrcFacts.src_fixed d = Some (ReaderSrcFacts.src_fixed_of s, StreamProg.s_rest s)
  | StreamProg.RErr => ReaderSrcFacts.src_fixed d = None
  | _ => False
  end.
Proof. exact ReaderSrcFacts.src_head_correct. Qed.
Print Assumptions C03_source_src_fixed.
Theorem C03_src_is_fixed_then_rest : forall d, parse_src d = (x <- ReaderSrcFacts.src_fixed ;; ReaderSrcFacts.src_rest x) d.
Proof. exact ReaderSrcFacts.parse_src_split. Qed.
Print Assumptions C03_src_is_fixed_then_rest.

(* the callout subsection walk of SRC.getCallouts: the part before the loop as translated reads the subsection id and flags (into `_`)
   and the word length, and sets the running length to 4; the translated loop condition is the model's `cur <? words * 4` in the
   first and in every later round; the loop body (construct the callout, keep it, add its flattened size) is the published text *)
Theorem C03_source_callouts_head : forall d,
  match StreamProg.run Gen.Readers.prog_callouts_head (StreamProg.init d) with
  | StreamProg.RFall s =>
      ReaderSrcFacts.callouts_head d = Some (StreamProg.int_of s (L "subsectionWordLength"), StreamProg.s_rest s) /\
      StreamProg.int_of s (L "currentLength") = 4%N /\
      StreamProg.evc Gen.Readers.guard_callouts s = Some (4 <? StreamProg.int_of s (L "subsectionWordLength") * 4)%N
  | StreamProg.RErr => ReaderSrcFacts.callouts_head d = None
  | _ => False
  end.
Proof. exact ReaderSrcFacts.callouts_head_correct. Qed.
Print Assumptions C03_source_callouts_head.
Theorem C03_source_callouts_guard : forall wl cur d i mems,
  StreamProg.evc Gen.Readers.guard_callouts
    (StreamProg.mkS d i [(L "currentLength", Z.of_N cur); (L "subsectionWordLength", Z.of_N wl)] mems) = Some (cur <? wl * 4)%N.
Proof. exact ReaderSrcFacts.callouts_guard. Qed.
Print Assumptions C03_source_callouts_guard.
Theorem C03_source_callouts_loop : Gen.Readers.loop_callouts = Spec.PublishedCalloutLoop.loop_callouts.
Proof. reflexivity. Qed.
Print Assumptions C03_source_callouts_loop.

(* a registry message, when one is defined for the reason code, is filled with the referenced hex words: the entry is the first
   one of the SRC's type whose reason code contains "0x" + characters 4..7 of the reference code; "SRCWordN" refers to hex word N;
   for messages whose placeholders are %1, %2, .. in this order the positional filling the code performs is the filling by number *)
Theorem C03_registry_entry : forall reg code ty p, reg_find reg code ty = Some p ->
  exists pre post rc, reg = pre ++ p :: post /\ r_reason p = Some rc /\ substrb code rc = true /\
    text_eqb ty (match r_type p with Some t => t | None => L "BD" end) = true.
Proof. exact registry_entry_first. Qed.
Print Assumptions C03_registry_entry.
Theorem C03_registry_message : forall ws p srcs ns, length ws = 8%nat -> r_args p = Some srcs -> Forall2 names_word srcs ns ->
  ordered (r_message p) 0 (length ns) = true ->
  build_message ws p = Some (fill_by_number (r_message p) (map (fun n => hex_of (referenced_word ws n)) ns)).
Proof. exact registry_message_filled. Qed.
Print Assumptions C03_registry_message.
Theorem C03_registry_message_plain : forall ws p, r_args p = None -> build_message ws p = Some (r_message p).
Proof. exact registry_message_plain. Qed.
Print Assumptions C03_registry_message_plain.
Theorem C03_registry_word : forall ws w d n acc, length ws = 8%nat -> rw_desc w = Some d -> rw_num w = [48 + n] -> 2 <= n <= 9 ->
  hexword_descs ws [w] acc = Some (obj_set acc (rw_source w) (JArr [jn (referenced_word ws n); js d])).
Proof. exact registry_word_desc. Qed.
Print Assumptions C03_registry_word.
Example C03_registry_example :
  build_message [1; 2; 3; 4; 171; 6; 7; 8]
    {| r_reason := Some (L "0x2030"); r_type := None; r_message := L "word %1 then %2"; r_args := Some [L "SRCWord6"; L "SRCWord9"]; r_words := [] |}
  = Some (L "word 0xab then 0x8").
Proof. vm_compute. reflexivity. Qed.

(* non-vacuity: two callouts, the first followed directly by one whose location code starts with "ID" *)
Example C03_example :
  let f := {| f_size := 0; f_flags := 16 + 8; f_pn := L "PN123456"; f_ccin := []; f_sn := [] |} in
  let c1 := {| c_size := 16; c_flags := 0; c_prio := 72; c_loc := []; c_subs := [SubFru f] |} in
  let c2 := {| c_size := 20; c_flags := 0; c_prio := 77; c_loc := L "ID01"; c_subs := [SubFru f] |} in
  parse_callout_list 6 40 4 [] (flat_map enc_callout [c1; c2] ++ L "IDxx") = Some (Some [c1; c2], L "IDxx").
Proof. vm_compute. reflexivity. Qed.
