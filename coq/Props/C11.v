(* C11 — only delete options remove files, and only the files they name. *)
From Coq Require Import List NArith Bool Arith.
From PV Require Gen.Dispatch Spec.PublishedLayouts Proofs.DispatchFacts Gen.CleanGen Spec.PublishedSkeletons Proofs.CleanSkelFacts.
From PV Require Import Base.Bytes Base.Lit Base.Json Base.TextOrder Model.Cli Proofs.CliFacts Proofs.LookupFacts.
Import ListNotations.
Open Scope N_scope.

(* --delete E removes at most one file: the first top-level name, in directory order, that contains E; nothing otherwise *)
Theorem C11_delete_one : forall i walk regular json_ok ext,
  effects (ADelete i) walk regular json_ok ext = [] \/
  exists pid n, process_id i = Some pid /\ In n walk /\ substrb pid n = true /\ effects (ADelete i) walk regular json_ok ext = [Remove n].
Proof. exact delete_removes_at_most_one. Qed.
Print Assumptions C11_delete_one.

(* --delete-all removes all and only the regular files directly in the directory (sub-directories are never listed) *)
Theorem C11_delete_all : forall walk regular json_ok ext,
  effects ADeleteAll walk regular json_ok ext = map Remove (filter regular walk).
Proof. exact delete_all_removes_regular. Qed.
Print Assumptions C11_delete_all.

(* every other mode leaves the tree unchanged *)
Theorem C11_readonly : forall a walk regular json_ok ext, read_only a = true -> effects a walk regular json_ok ext = [].
Proof. exact read_only_no_effect. Qed.
Print Assumptions C11_readonly.

(* --json creates only <pel file>.<entry id>.json (and removes <pel file> only with --clean, only when that file was written) *)
Theorem C11_json_names : forall clean walk regular json_ok ext e,
  In e (effects (AJson clean) walk regular json_ok ext) ->
  exists n eid, In n walk /\ json_ok n = Some eid /\
    (e = Create (n ++ L "." ++ eid ++ L ".json") \/ (clean = true /\ e = Remove n)).
Proof. exact json_creates_only_named. Qed.
Print Assumptions C11_json_names.

(* exactly one action runs: the dispatch is a function of the options, the first option present wins; in particular a
   delete option combined with any earlier-ranked mode deletes nothing *)
Theorem C11_one_action : forall a, a_delete_all a = true ->
  (dispatch a = ADeleteAll <->
   nonempty_opt (a_file a) = None /\ a_json a = false /\ nonempty_opt (a_id a) = None /\ nonempty_opt (a_bmcid a) = None /\
   nonempty_opt (a_plid a) = None /\ nonempty_opt (a_src a) = None /\ nonempty_opt (a_src_exclude a) = None /\
   a_list a = false /\ a_count a = false /\ a_all a = false /\ nonempty_opt (a_delete a) = None).
Proof.
  intros a Hd. unfold dispatch.
  destruct (nonempty_opt (a_file a)); [split; [discriminate|intros (H & _); discriminate]|].
  destruct (a_json a); [split; [discriminate|intros (_ & H & _); discriminate]|].
  destruct (nonempty_opt (a_id a)); [split; [discriminate|intros (_ & _ & H & _); discriminate]|].
  destruct (nonempty_opt (a_bmcid a)); [split; [discriminate|intros (_ & _ & _ & H & _); discriminate]|].
  destruct (nonempty_opt (a_plid a)); [split; [discriminate|intros (_ & _ & _ & _ & H & _); discriminate]|].
  destruct (nonempty_opt (a_src a)); [split; [discriminate|intros (_ & _ & _ & _ & _ & H & _); discriminate]|].
  destruct (nonempty_opt (a_src_exclude a)); [split; [discriminate|intros (_ & _ & _ & _ & _ & _ & H & _); discriminate]|].
  destruct (a_list a); [split; [discriminate|intros (_ & _ & _ & _ & _ & _ & _ & H & _); discriminate]|].
  destruct (a_count a); [split; [discriminate|intros (_ & _ & _ & _ & _ & _ & _ & _ & H & _); discriminate]|].
  destruct (a_all a); [split; [discriminate|intros (_ & _ & _ & _ & _ & _ & _ & _ & _ & H & _); discriminate]|].
  destruct (nonempty_opt (a_delete a)); [split; [discriminate|intros (_ & _ & _ & _ & _ & _ & _ & _ & _ & _ & H); discriminate]|].
  rewrite Hd. split; [intros _; repeat split|reflexivity].
Qed.
Print Assumptions C11_one_action.

(* ---- the tie to the source text of main() ----
   Gen/Dispatch.v is extracted on every run (harness/extract_dispatch.py, fail-closed Python-ast walk): every top-level
   `if args.<option>: ...; sys.exit(0)` block of main() in source order with the repository functions it calls, and the
   option -> Config attribute mapping.  The extraction succeeds only if every mode is such a block (no else / elif chain, no
   mode function called anywhere else), i.e. one action per invocation, and the order is the published one: *)
Theorem C11_source_dispatch :
  Gen.Dispatch.ok_dispatch = true /\
  Gen.Dispatch.mode_order = Spec.PublishedLayouts.mode_order /\
  Gen.Dispatch.config_flags = Spec.PublishedLayouts.config_flags.
Proof. repeat split; reflexivity. Qed.
Print Assumptions C11_source_dispatch.

(* the model's dispatch tests the modes in exactly that order: the first option present decides *)
Theorem C11_dispatch_order : forall a,
  DispatchFacts.published_tags = map Some [DispatchFacts.MFile; DispatchFacts.MJson; DispatchFacts.MId; DispatchFacts.MBmcId; DispatchFacts.MPlid;
                                            DispatchFacts.MSrc; DispatchFacts.MSrcExclude; DispatchFacts.MList; DispatchFacts.MCount; DispatchFacts.MAll;
                                            DispatchFacts.MDelete; DispatchFacts.MDeleteAll] /\
  dispatch a = DispatchFacts.first_chosen a [DispatchFacts.MFile; DispatchFacts.MJson; DispatchFacts.MId; DispatchFacts.MBmcId; DispatchFacts.MPlid;
                                             DispatchFacts.MSrc; DispatchFacts.MSrcExclude; DispatchFacts.MList; DispatchFacts.MCount; DispatchFacts.MAll;
                                             DispatchFacts.MDelete; DispatchFacts.MDeleteAll].
Proof. intros a. split; [exact DispatchFacts.published_tags_value|exact (DispatchFacts.dispatch_follows_order a)]. Qed.
Print Assumptions C11_dispatch_order.

(* so a delete option acts only when no display / look-up / export mode is requested with it *)
Theorem C11_delete_only_alone : forall a i, dispatch a = ADelete i \/ dispatch a = ADeleteAll ->
  nonempty_opt (a_file a) = None /\ a_json a = false /\ nonempty_opt (a_id a) = None /\ nonempty_opt (a_bmcid a) = None /\
  nonempty_opt (a_plid a) = None /\ nonempty_opt (a_src a) = None /\ nonempty_opt (a_src_exclude a) = None /\
  a_list a = false /\ a_count a = false /\ a_all a = false.
Proof. exact DispatchFacts.delete_only_when_alone. Qed.
Print Assumptions C11_delete_only_alone.

(* the delete functions themselves, as effect skeletons extracted from the source text (harness/extract_clean.py): equal to the published
   ones, in which the directory walk is left after the top-level round, --delete removes a file and leaves the loop at once, and
   --delete-all removes what os.path.isfile accepts *)
Theorem C11_source_delete_skeletons :
  Gen.CleanGen.ok_clean = true /\
  Gen.CleanGen.sk_deleteAllPELs = Spec.PublishedSkeletons.sk_deleteAllPELs /\
  Gen.CleanGen.sk_deletePELFromPELId = Spec.PublishedSkeletons.sk_deletePELFromPELId /\
  Gen.CleanGen.sk_parsePelFromID = Spec.PublishedSkeletons.sk_parsePelFromID /\
  (CleanSkelFacts.stops_after_first_round Spec.PublishedSkeletons.sk_deleteAllPELs && CleanSkelFacts.stops_after_first_round Spec.PublishedSkeletons.sk_deletePELFromPELId &&
   CleanSkelFacts.stops_after_first_round Spec.PublishedSkeletons.sk_parsePelFromID &&
   CleanSkelFacts.remove_then_break (CleanSkelFacts.inner_loop Spec.PublishedSkeletons.sk_deletePELFromPELId) &&
   CleanSkelFacts.no_unknown Spec.PublishedSkeletons.sk_deleteAllPELs && CleanSkelFacts.no_unknown Spec.PublishedSkeletons.sk_deletePELFromPELId &&
   CleanSkelFacts.no_unknown Spec.PublishedSkeletons.sk_parsePelFromID = true).
Proof. repeat split; reflexivity. Qed.
Print Assumptions C11_source_delete_skeletons.

Example C11_example :
  effects (ADelete (L "0x5000a1b2")) [L "x"; L "2024_5000A1B2"; L "copy_5000A1B2"] (fun _ => true) (fun _ => None) None = [Remove (L "2024_5000A1B2")].
Proof. vm_compute. reflexivity. Qed.
