(* C02 — header-type sections display exactly the values encoded in the log. *)
From Coq Require Import List NArith ZArith Bool Arith.
From PV Require Gen.Layouts Spec.PublishedLayouts Proofs.LayoutFacts Base.Reader Model.StreamProg Gen.Readers Proofs.ReaderSectFacts.
From PV Require Import Base.Bytes Base.Lit Base.Json Base.PelTypes Model.Parse Model.Render Spec.Encode Spec.DocOf Gen.Tables
                       Proofs.ParseFacts Proofs.RenderFacts.
Import ListNotations.
Open Scope N_scope.

Theorem C02_tables_agree :
  Gen.Tables.creatorIDs = PublishedTables.creatorIDs /\
  Gen.Tables.subsystemValues = PublishedTables.subsystemValues /\
  Gen.Tables.eventScopeValues = PublishedTables.eventScopeValues /\
  Gen.Tables.eventTypeValues = PublishedTables.eventTypeValues /\
  Gen.Tables.severityValues = PublishedTables.severityValues /\
  Gen.Tables.actionFlagsValues = PublishedTables.actionFlagsValues /\
  Gen.Tables.transmissionStates = PublishedTables.transmissionStates.
Proof. exact tables_agree_headers. Qed.
Print Assumptions C02_tables_agree.

(* the bytes of each header-type section are read back into exactly the stored field values (any continuation) ... *)
Theorem C02_ph_fields : forall p n rest, wf_ph p n ->
  parse_ph_body (ph_len p) (ph_hdr p)
    (ph_create p ++ ph_commit p ++ be 1 (ph_creator p) ++ be 1 (ph_res0 p) ++ be 1 (ph_res1 p) ++ be 1 (ph_count p) ++
     be 4 (ph_obmc p) ++ be 8 (ph_cver p) ++ be 4 (ph_plid p) ++ be 4 (ph_eid p) ++ rest) = Some (p, rest).
Proof. exact parse_ph_body_enc. Qed.
Print Assumptions C02_ph_fields.
Theorem C02_uh_fields : forall u rest, wf_uh u ->
  parse_uh_body (uh_len u) (uh_hdr u)
    (be 1 (uh_subsys u) ++ be 1 (uh_scope u) ++ be 1 (uh_sev u) ++ be 1 (uh_etype u) ++ be 4 (uh_res4 u) ++
     be 1 (uh_domain u) ++ be 1 (uh_vector u) ++ be 2 (uh_flags u) ++ be 4 (uh_states u) ++ rest) = Some (u, rest).
Proof. exact parse_uh_body_enc. Qed.
Print Assumptions C02_uh_fields.
Theorem C02_eh_fields : forall e rest, wf_eh e -> parse_eh (enc_eh e ++ rest) = Some (e, rest).
Proof. exact parse_eh_enc. Qed.
Print Assumptions C02_eh_fields.
Theorem C02_mt_fields : forall t rest, wf_mt t -> parse_mt (enc_mt t ++ rest) = Some (t, rest).
Proof. exact parse_mt_enc. Qed.
Print Assumptions C02_mt_fields.
Theorem C02_lp_fields : forall l rest, wf_lp l -> parse_lp (enc_lp l ++ rest) = Some (l, rest).
Proof. exact parse_lp_enc. Qed.
Print Assumptions C02_lp_fields.

(* ... and what is displayed for them is the specification's rendering of those values (Spec/DocOf.v):
   ids and counts numerically, BCD timestamps, text without NUL padding, coded bytes through the published tables,
   the set of defined action-flag bits that are on, every target partition id *)
Theorem C02_ph_display : forall e p n, wf_ph p n -> render_ph e p = Some ([ph_creator p], doc_ph (se_of e) p).
Proof. exact render_ph_spec. Qed.
Print Assumptions C02_ph_display.
Theorem C02_uh_display : forall e c u, wf_uh u -> render_uh e [c] u = doc_uh (se_of e) c u.
Proof. exact render_uh_spec. Qed.
Print Assumptions C02_uh_display.
Theorem C02_eh_display : forall e h c x, wf_hdr h -> wf_eh x -> render_eh e h [c] x = Some (doc_eh (se_of e) c h x).
Proof. exact render_eh_spec. Qed.
Print Assumptions C02_eh_display.
Theorem C02_mt_display : forall e h c x, wf_hdr h -> wf_mt x -> render_mt e h [c] x = Some (doc_mt (se_of e) c h x).
Proof. exact render_mt_spec. Qed.
Print Assumptions C02_mt_display.
Theorem C02_lp_display : forall e h c x, wf_hdr h -> wf_lp x -> render_lp e h [c] x = Some (doc_lp (se_of e) c h x).
Proof. exact render_lp_spec. Qed.
Print Assumptions C02_lp_display.

(* ---- the tie to the source text ----
   Gen/Layouts.v is extracted on every run from the source text of PrivateHeader.toJSON, UserHeader.toJSON,
   ExtendedUserHeader.toJSON, FailingMTMS.toJSON and getTimestamp (harness/extract_layouts.py, fail-closed Python-ast walk): for
   every read of the stream the attribute it goes to, the primitive (get_int / get_mem / getTimestamp), the width and the
   expression wrapped around it ('0x{:08X}'.format(_), bytes.decode(_) ...); for every displayed key the expression shown.
   They equal the published tables ... *)
Theorem C02_source_layouts :
  Gen.Layouts.rd_getTimestamp = Spec.PublishedLayouts.rd_getTimestamp /\
  Gen.Layouts.rd_PrivateHeader = Spec.PublishedLayouts.rd_PrivateHeader /\
  Gen.Layouts.rd_UserHeader = Spec.PublishedLayouts.rd_UserHeader /\
  Gen.Layouts.rd_ExtendedUserHeader = Spec.PublishedLayouts.rd_ExtendedUserHeader /\
  Gen.Layouts.rd_FailingMTMS = Spec.PublishedLayouts.rd_FailingMTMS /\
  Gen.Layouts.rd_ImpactedPartition = Spec.PublishedLayouts.rd_ImpactedPartition.
Proof. repeat split; reflexivity. Qed.
Print Assumptions C02_source_layouts.

Theorem C02_source_displays :
  Gen.Layouts.sh_PrivateHeader = Spec.PublishedLayouts.sh_PrivateHeader /\
  Gen.Layouts.sh_UserHeader = Spec.PublishedLayouts.sh_UserHeader /\
  Gen.Layouts.sh_ExtendedUserHeader = Spec.PublishedLayouts.sh_ExtendedUserHeader /\
  Gen.Layouts.sh_FailingMTMS = Spec.PublishedLayouts.sh_FailingMTMS /\
  Gen.Layouts.sh_ImpactedPartition = Spec.PublishedLayouts.sh_ImpactedPartition.
Proof. repeat split; reflexivity. Qed.
Print Assumptions C02_source_displays.

(* SOURCE-TEXT tie of the Impacted Partition section (the same theorem as C01_source_lp_reader): ImpactedPartition.toJSON as translated
   by harness/extract_readers.py reads, for EVERY byte string, what the model's parse_lp reads - the four fixed fields, the name when
   its length is non-zero, the targets in order, two pad bytes after an odd count. *)
Theorem C02_source_lp_reader : forall d,
  match StreamProg.run Gen.Readers.prog_lp (StreamProg.init d) with
  | StreamProg.RFall s => parse_lp d = Some (ReaderSectFacts.lp_of s, StreamProg.s_rest s)
  | StreamProg.RErr => parse_lp d = None
  | _ => False
  end.
Proof. exact ReaderSectFacts.lp_prog_correct. Qed.
Print Assumptions C02_source_lp_reader.

(* ... and the model's readers are the generic reader over the published read sequences: every field is read with that width,
   in that order (LayoutFacts.read_fields reads get_mem of the width per entry, a time stamp by the seven reads of getTimestamp) *)
Theorem C02_ph_reader_is_layout : forall len h s,
  parse_ph_body len h s =
  match LayoutFacts.read_fields Spec.PublishedLayouts.rd_PrivateHeader s with
  | Some ([cr; cm; c; r0; r1; n; ob; cv; pl; ei], rest) =>
      Some ({| ph_hdr := h; ph_len := len; ph_create := cr; ph_commit := cm; ph_creator := LayoutFacts.num c; ph_res0 := LayoutFacts.num r0;
               ph_res1 := LayoutFacts.num r1; ph_count := LayoutFacts.num n; ph_obmc := LayoutFacts.num ob; ph_cver := LayoutFacts.num cv;
               ph_plid := LayoutFacts.num pl; ph_eid := LayoutFacts.num ei |}, rest)
  | _ => None
  end.
Proof. exact LayoutFacts.private_header_layout. Qed.
Print Assumptions C02_ph_reader_is_layout.

Theorem C02_uh_reader_is_layout : forall len h s,
  parse_uh_body len h s =
  match LayoutFacts.read_fields Spec.PublishedLayouts.rd_UserHeader s with
  | Some ([a; b; c; d; r; e; f; g; st], rest) =>
      Some ({| uh_hdr := h; uh_len := len; uh_subsys := LayoutFacts.num a; uh_scope := LayoutFacts.num b; uh_sev := LayoutFacts.num c;
               uh_etype := LayoutFacts.num d; uh_res4 := LayoutFacts.num r; uh_domain := LayoutFacts.num e; uh_vector := LayoutFacts.num f;
               uh_flags := LayoutFacts.num g; uh_states := LayoutFacts.num st |}, rest)
  | _ => None
  end.
Proof. exact LayoutFacts.user_header_layout. Qed.
Print Assumptions C02_uh_reader_is_layout.

Theorem C02_mt_reader_is_layout : forall s,
  parse_mt s = match LayoutFacts.read_fields Spec.PublishedLayouts.rd_FailingMTMS s with
               | Some ([a; b], rest) => Some ({| t_mtm := a; t_sn := b |}, rest)
               | _ => None
               end.
Proof. exact LayoutFacts.failing_mtms_layout. Qed.
Print Assumptions C02_mt_reader_is_layout.

Theorem C02_eh_reader_is_layout : forall s,
  parse_eh s =
  match LayoutFacts.read_fields (LayoutFacts.fixed_prefix Spec.PublishedLayouts.rd_ExtendedUserHeader) s with
  | Some ([a; b; c; d; r; t; r1; r2; r3; sl], rest) =>
      match (if LayoutFacts.num sl =? 0 then Reader.ret [] else Reader.get_memN (LayoutFacts.num sl)) rest with
      | Some (sym, rest') =>
          Some ({| e_mtm := a; e_sn := b; e_fw := c; e_subfw := d; e_res4 := LayoutFacts.num r; e_reftime := t; e_r1 := LayoutFacts.num r1;
                   e_r2 := LayoutFacts.num r2; e_r3 := LayoutFacts.num r3; e_symlen := LayoutFacts.num sl; e_sym := sym |}, rest')
      | None => None
      end
  | _ => None
  end.
Proof. exact LayoutFacts.ext_user_header_layout. Qed.
Print Assumptions C02_eh_reader_is_layout.

(* non-vacuity: three target partitions are all displayed, ids below 0x10000000 keep their zeros *)
Example C02_example :
  doc_lp {| se_comp_name := fun _ _ => None; se_error_details := fun _ _ => [] |} 79 {| h_ver := 1; h_sub := 0; h_comp := 8192 |}
    {| l_part := 5; l_namelen := 0; l_count := 3; l_logid := 7; l_name := []; l_targets := [10; 11; 12]; l_pad := Some 0 |}
  = [(L "Section Version", num 1); (L "Sub-section type", num 0); (L "Created by", str (L "2000"));
     (L "Primary Partition ID", str (L "0x0005")); (L "Length of LP Name", str (L "0x00")); (L "Target LP Count", str (L "0x03"));
     (L "Logical Partition Log ID", str (L "0x00000007")); (L "Primary Partition Name", str []);
     (L "Target LP", JArr [str (L "0x000A"); str (L "0x000B"); str (L "0x000C")])].
Proof. vm_compute. reflexivity. Qed.
