Theorem C18_pending : True. Proof. exact I. Qed.
