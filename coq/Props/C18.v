(* C18 — parser modules are chosen by creator/component, fed the right data, contained. *)
From Coq Require Import List NArith ZArith Bool Arith.
From PV Require Import Base.Bytes Base.Lit Base.Json Base.PelTypes Model.Hexdump Model.Render Model.Pel Model.Env
                       Proofs.UdFacts Proofs.EnvFacts Proofs.PluginFacts.
Import ListNotations.
Open Scope N_scope.

(* the user-data parser consulted is udparsers.<creator><component id in 4 lower-case hex digits> ... *)
Theorem C18_ud_name : forall cr comp, comp < 65536 ->
  ud_module cr comp = L "udparsers." ++ (map lower_c (map lower_c cr) ++ hex_fixed hexdigL 4 comp)
                       ++ L "." ++ (map lower_c (map lower_c cr) ++ hex_fixed hexdigL 4 comp).
Proof. exact ud_module_name. Qed.
Print Assumptions C18_ud_name.

(* ... and receives that section's sub-type, version and exact payload; what the section shows is determined by its answer *)
Theorem C18_ud_args : forall e c h cr d f,
  (is_bmc cr && (h_comp h =? 8192)) = false -> allow_plugins c = true -> ud_import e (ud_module cr (h_comp h)) = IFound f ->
  render_ud e c h cr d =
    merge_value (base_fields e h cr (L "Created by"))
      match f (h_sub h) (h_ver h) d with
      | PRetJ j => UVJson j
      | PRetT t => UVText t
      | PRetEmpty => UVText []
      | PNone => UVJson (JObj ((L "Error", js (none_error cr (h_comp h) (h_sub h) (h_ver h))) :: data_obj d))
      | PNonStr => UVReject
      | PRaise msg | PRaiseImport msg => UVJson (JObj ((L "Error", js (raise_error cr (h_comp h) (h_sub h) (h_ver h) msg)) :: data_obj d))
      end.
Proof. exact ud_parser_arguments. Qed.
Print Assumptions C18_ud_args.

(* the SRC parser is srcparsers.<creator>src and receives the reference code and hex words 2..9 in order *)
Theorem C18_src_name : forall cr, src_module cr = L "srcparsers." ++ (map lower_c cr ++ L "src") ++ L "." ++ (map lower_c cr ++ L "src").
Proof. exact src_module_name. Qed.
Print Assumptions C18_src_name.
Theorem C18_src_args : forall e cr ascii ws f, src_import e (src_module cr) = IFound f ->
  src_details e cr ascii ws =
    match f ascii (ws ++ repeat (L "00000000") (8 - length ws)) with
    | PRetJ JNull | PRetEmpty | PNone | PRaise _ | PRaiseImport _ => Some []
    | PRetJ j => Some [(L "SRC Details", j)]
    | PRetT t => src_details_text t
    | PNonStr => None
    end.
Proof. exact src_parser_arguments. Qed.
Print Assumptions C18_src_args.

(* for BMC SRCs: the component named by the reference code, or the hostboot parser for BC codes *)
Theorem C18_osrc_routing : forall lookup refcode words,
  osrc lookup refcode words =
    match lookup (if text_eqb (firstn 2 refcode) (L "BC") then L "srcparsers.bsrc.bsrc"
                  else L "srcparsers.o" ++ map lower_c (firstn 2 (skipn 4 refcode)) ++ L "00.o" ++ map lower_c (firstn 2 (skipn 4 refcode)) ++ L "00") with
    | IFound f => f refcode words
    | INotFound => PRetJ JNull
    | IBroken msg => PRaise msg
    end.
Proof. exact osrc_routing. Qed.
Print Assumptions C18_osrc_routing.

(* a parser that raises, cannot be imported or returns nothing affects only its own section: error note plus raw hex dump
   (from which the payload is recovered) ... *)
Theorem C18_contained_ud : forall e c h cr d, parser_failed e c cr (h_comp h) (h_sub h) (h_ver h) d ->
  exists o er, render_ud e c h cr d = Some o /\ obj_get o (L "Error") = Some (JStr er).
Proof. exact ud_error_note. Qed.
Print Assumptions C18_contained_ud.
(* ... or no SRC details; the section itself is still displayed (render_src only appends what src_details returns) *)
Theorem C18_contained_src : forall e cr ascii ws,
  (match src_import e (src_module cr) with
   | IFound f => match f ascii (pad8 ws) with PNone | PRaise _ | PRaiseImport _ | PRetEmpty => True | _ => False end
   | _ => True
   end) -> src_details e cr ascii ws = Some [].
Proof. exact src_parser_contained. Qed.
Print Assumptions C18_contained_src.

(* with --skip-parser-plugins no parser module is consulted: the decode is the same whatever modules exist *)
Theorem C18_disabled : forall e1 e2 consider data,
  registry e1 = registry e2 -> (forall a b, comp_name e1 a b = comp_name e2 a b) ->
  decode e1 {| allow_plugins := false |} consider data = decode e2 {| allow_plugins := false |} consider data.
Proof. exact disabled_ignores_modules. Qed.
Print Assumptions C18_disabled.

Example C18_example : ud_module (L "B") 4660 = L "udparsers.b1234.b1234" /\
  osrc_target (L "BD8DE510") = L "srcparsers.oe500.oe500" /\ osrc_target (L "BC8A1234") = L "srcparsers.bsrc.bsrc".
Proof. vm_compute. repeat split; reflexivity. Qed.
