(* placeholder while the proofs are being written: replaced before the property is registered *)
Theorem C01_pending : True. Proof. exact I. Qed.
