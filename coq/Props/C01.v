(* C01 — every PEL section is decoded once, in order, from exactly its own bytes. *)
From Coq Require Import List NArith ZArith Bool Arith.
From PV Require Gen.Layouts Spec.PublishedLayouts Proofs.LayoutFacts Gen.Sections Spec.PublishedSections Proofs.SectionFacts Model.StreamProg Gen.Readers Proofs.ReaderSectFacts.
From PV Require Import Base.Bytes Base.Lit Base.Json Base.Utf8 Base.Reader Base.PelTypes
                       Model.Parse Model.Render Model.Pel Model.Env Spec.Encode Spec.DocOf Spec.Choice Gen.Tables
                       Proofs.ParseFacts Proofs.SrcFacts Proofs.PelFacts Proofs.RenderFacts Proofs.NumberFacts Proofs.NumberDistinct.
Import ListNotations.
Open Scope N_scope.

(* the ids and names the code uses are the published ones (regenerated from /repo on every run) *)
Theorem C01_tables_agree :
  Gen.Tables.sectionNames = PublishedTables.sectionNames /\
  SectionID_privateHeader = ID_PH /\ SectionID_userHeader = ID_UH /\ SectionID_primarySRC = ID_PS /\
  SectionID_secondarySRC = ID_SS /\ SectionID_extendedUserHeader = ID_EH /\ SectionID_failingMTMS = ID_MT /\
  SectionID_extUserData = ID_ED /\ SectionID_userData = ID_UD /\ SectionID_impactedPart = ID_LP.
Proof. exact (conj tables_agree_sections ids_agree). Qed.
Print Assumptions C01_tables_agree.

(* a section reader consumes exactly the section's bytes: whatever follows is handed on untouched *)
Theorem C01_section_exact : forall s rest, wf_section s -> parse_section (enc_section s ++ rest) = Some (Some s, rest).
Proof. exact parse_section_exact. Qed.
Print Assumptions C01_section_exact.

(* any number of sections in a row: all are read, in order; the only way to fail is a section whose display fails *)
Theorem C01_sections_in_order : forall e c creator secs rest, Forall wf_section secs ->
  decode_sections e c creator (length secs) (flat_map enc_section secs ++ rest) =
    Some (all_some (map (render_section e c creator) secs)) \/
  exists pre s, (exists post, secs = pre ++ s :: post) /\ render_section e c creator s = None /\
    decode_sections e c creator (length secs) (flat_map enc_section secs ++ rest) = Some None.
Proof. exact decode_sections_exact. Qed.
Print Assumptions C01_sections_in_order.

(* the whole log: Private Header, User Header, then one entry per optional section, bytes after the last section ignored *)
Theorem C01_whole_pel : forall e c consider p trailing,
  wf_pel p -> consider (p_uh p) = true ->
  (forall creator, utf8_decode [ph_creator (p_ph p)] = Some creator ->
     forall s, In s (p_secs p) -> render_section e c creator s <> None) ->
  exists creator phj secs,
    render_ph e (p_ph p) = Some (creator, phj) /\
    all_some (map (render_section e c creator) (p_secs p)) = Some secs /\
    decode e c consider (encode p ++ trailing) =
      OkDoc (hexU 8 (ph_eid (p_ph p)))
            (build_output [(section_name ID_PH, JObj phj); (section_name ID_UH, JObj (render_uh e creator (p_uh p)))] secs).
Proof. exact decode_wf. Qed.
Print Assumptions C01_whole_pel.

(* entries are named after the two-character type through the published table, "Unknown" otherwise ... *)
Theorem C01_names : forall e c creator secs r,
  all_some (map (render_section e c creator) secs) = Some r ->
  map fst r = map (fun s => section_name (sec_id s)) secs.
Proof. exact all_some_names. Qed.
Print Assumptions C01_names.
Theorem C01_name_table : forall id, id < 65536 -> section_name id = name_of_id id.
Proof. exact section_name_spec. Qed.
Print Assumptions C01_name_table.

(* ... a name that occurs more than once is numbered 0,1,2.. by the number of earlier occurrences *)
Theorem C01_numbering_model : forall names, numbered names = numbered_names names.
Proof. exact numbered_spec. Qed.
Print Assumptions C01_numbering_model.
Theorem C01_numbering : forall names i n, nth_error names i = Some n ->
  nth_error (numbered_names names) i =
    Some (if Nat.eqb (occurrences names n) 1 then n else n ++ L " " ++ dec (N.of_nat (occurrences (firstn i names) n))).
Proof. exact numbered_nth. Qed.
Print Assumptions C01_numbering.

(* with pairwise distinct keys the document is the headers followed by the sections in log order *)
Theorem C01_document_order : forall hdrs (secs : list (text * list (text * json))),
  NoDup (map fst hdrs ++ numbered (map fst secs)) ->
  build_output hdrs secs = hdrs ++ combine (numbered (map fst secs)) (map (fun s => JObj (snd s)) secs).
Proof. exact build_output_distinct. Qed.
Print Assumptions C01_document_order.

(* the keys are in fact always pairwise distinct for optional sections (ids other than PH / UH): the published names contain
   no digit, and a numbered key ends in one *)
Theorem C01_keys_distinct : forall ids, (forall id, In id ids -> id < 65536 /\ id <> 20552 /\ id <> 21832) ->
  NoDup (L "Private Header" :: L "User Header" :: numbered_names (map name_of_id (map (fun x => x) ids))).
Proof. intros ids H. rewrite map_id. apply section_keys_nodup. exact H. Qed.
Print Assumptions C01_keys_distinct.

(* THE statement: for every well-formed PEL the decoded document has exactly one top-level entry per section, in log order,
   named after the section's type through the published table (Unknown otherwise), a repeated name numbered 0,1,2.. *)
Theorem C01_document : forall e c consider p trailing,
  wf_pel p -> consider (p_uh p) = true ->
  (forall creator, utf8_decode [ph_creator (p_ph p)] = Some creator ->
     forall s, In s (p_secs p) -> render_section e c creator s <> None) ->
  exists eid doc, decode e c consider (encode p ++ trailing) = OkDoc eid doc /\
    map fst doc = L "Private Header" :: L "User Header" :: numbered_names (map name_of_id (map sec_id (p_secs p))) /\
    NoDup (map fst doc).
Proof. exact wf_document_keys. Qed.
Print Assumptions C01_document.


(* ---- the tie to the source text ----
   the 8-byte section header is read by parseHeader as five unsigned big-endian integers of 2, 2, 1, 1 and 2 bytes, in this order
   (Gen/Layouts.v, extracted on every run from the source text by harness/extract_layouts.py, equals the published table), and
   the model's parse_header is the generic reader over that table *)
Theorem C01_source_header_layout :
  Gen.Layouts.ok_parseHeader = true /\ Gen.Layouts.rd_parseHeader = Spec.PublishedLayouts.rd_parseHeader.
Proof. split; reflexivity. Qed.
Print Assumptions C01_source_header_layout.

(* the three length-driven consumers take exactly the declared length minus the 8-byte section header (minus the 4-byte prefix of
   an extended user-data section), as one get_mem - the model's parse_body reads get_memN (len - 8) / (len - 12) *)
Theorem C01_source_length_driven :
  Gen.Layouts.ok_UserData = true /\ Gen.Layouts.rd_UserData = Spec.PublishedLayouts.rd_UserData /\
  Gen.Layouts.ok_ExtUserData = true /\ Gen.Layouts.rd_ExtUserData = Spec.PublishedLayouts.rd_ExtUserData /\
  Gen.Layouts.ok_Default = true /\ Gen.Layouts.rd_Default = Spec.PublishedLayouts.rd_Default.
Proof. repeat split; reflexivity. Qed.
Print Assumptions C01_source_length_driven.

(* SOURCE-TEXT tie of the section walk.  harness/extract_sections.py extracts, on every run, the if / elif chain of sectionFun (which
   section ids each branch accepts, and the class the branch's generate function constructs and renders), the class of the final
   else, and the loop of parsePEL over the optional sections.  They are the published ones, and the model's choice of a body
   reader is, for EVERY section id, the reader of the class that table gives (so an id routed to another class, a branch
   dropped or reordered across overlapping ids, or a changed default breaks one of the two theorems). *)
Theorem C01_source_section_dispatch :
  Gen.Sections.ok_sections = true /\
  Gen.Sections.section_dispatch = Spec.PublishedSections.section_dispatch /\
  Gen.Sections.section_default = Spec.PublishedSections.section_default /\
  Gen.Sections.section_loop = Spec.PublishedSections.section_loop.
Proof. repeat split; reflexivity. Qed.
Print Assumptions C01_source_section_dispatch.
Theorem C01_dispatch_is_model : forall id len,
  parse_body id len =
  SectionFacts.reader_of_class (SectionFacts.class_of Gen.Sections.section_dispatch Gen.Sections.section_default id) len.
Proof. exact SectionFacts.parse_body_is_dispatch. Qed.
Print Assumptions C01_dispatch_is_model.

(* SOURCE-TEXT tie of the Impacted Partition section.  harness/extract_readers.py translates the statements ImpactedPartition.toJSON
   runs against self.stream (four fixed fields, the name when its length is non-zero, `for _ in range(count)` appending two-byte
   targets, two pad bytes after an odd count; what follows only builds the display) into a program of Model/StreamProg.v; for
   EVERY byte string running it is the model's parse_lp: same fields, name bytes, targets in order, pad, and bytes left; a
   DataStream assertion is the model's rejection. *)
Theorem C01_source_lp_reader : forall d,
  match StreamProg.run Gen.Readers.prog_lp (StreamProg.init d) with
  | StreamProg.RFall s => parse_lp d = Some (ReaderSectFacts.lp_of s, StreamProg.s_rest s)
  | StreamProg.RErr => parse_lp d = None
  | _ => False
  end.
Proof. exact ReaderSectFacts.lp_prog_correct. Qed.
Print Assumptions C01_source_lp_reader.

(* SOURCE-TEXT tie of the three length-driven consumers, beyond the layout table of C01_source_length_driven: the constructors of
   UserData, ExtUserData and Default as translated by harness/extract_readers.py, started with their parameters bound to the
   section-header fields, take from the stream exactly what the model's body readers take, for EVERY declared length and byte
   string: sectionLen - 8 bytes (after the creator and the two reserved fields: sectionLen - 12 for Extended User Data); a length
   that leaves nothing, or more than the data holds, is the DataStream assertion and the model's rejection. *)
Theorem C01_source_payload_readers : forall d id len ver sub comp cr,
  ReaderSectFacts.payload_agrees (StreamProg.run Gen.Readers.prog_ud (ReaderSectFacts.param_state d id len ver sub comp cr))
                                 (get_memN (len - 8) d) /\
  ReaderSectFacts.payload_agrees (StreamProg.run Gen.Readers.prog_dflt (ReaderSectFacts.param_state d id len ver sub comp cr))
                                 (get_memN (len - 8) d) /\
  ReaderSectFacts.ed_agrees (StreamProg.run Gen.Readers.prog_ed (ReaderSectFacts.param_state d id len ver sub comp cr))
                            (ReaderSectFacts.ed_reader len d).
Proof.
  intros. split; [apply ReaderSectFacts.ud_prog_correct|split; [apply ReaderSectFacts.dflt_prog_correct|apply ReaderSectFacts.ed_prog_correct]].
Qed.
Print Assumptions C01_source_payload_readers.

Theorem C01_header_reader_is_layout : forall s,
  parse_header s = match LayoutFacts.read_fields Spec.PublishedLayouts.rd_parseHeader s with
                   | Some ([i; l; v; t; c], rest) =>
                       Some ((LayoutFacts.num i, LayoutFacts.num l, {| h_ver := LayoutFacts.num v; h_sub := LayoutFacts.num t; h_comp := LayoutFacts.num c |}), rest)
                   | _ => None
                   end.
Proof. exact LayoutFacts.header_layout. Qed.
Print Assumptions C01_header_reader_is_layout.

(* non-vacuity: a generated PEL with seven sections (two of them hexdump-only with the same id) is well-formed enough to
   decode, and its keys are numbered as stated *)
Example C01_example :
  let p := build_pel 8 40 [5; 7; 11; 7; 1; 2; 3; 4; 5; 6; 7; 8; 9; 10; 11; 3; 2; 1; 12; 7; 6; 5; 4; 3; 2; 1; 13; 7; 7; 7; 7] in
  match decode env0 {| allow_plugins := false |} (fun _ => true) (encode p) with
  | OkDoc _ doc => length doc = (2 + length (p_secs p))%nat
  | _ => False
  end.
Proof. vm_compute. reflexivity. Qed.
