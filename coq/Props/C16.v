(* C16 — history logs show a full hex dump and exactly the non-zero fields.
   Only statements; every proof is [exact] of a lemma from Proofs/HlogFacts.v.
   The field table is abstract (any list of (name, width)); the header-file grammar that produces it is
   exercised by the harness (harness/props/c16.py), which hands the table parsed by the real
   get_hlog_fields() to the model. *)
From Coq Require Import List NArith Bool Arith.
From PV Require Gen.Regexes Spec.PublishedRegexes Model.StreamProg Gen.Readers Proofs.ReaderLoopFacts.
From PV Require Import Base.Bytes Base.Lit Model.Hexdump Model.Hlog Spec.IoDrawer
                       Proofs.HexdumpRoundtrip Proofs.HlogFacts.
Import ListNotations.
Open Scope N_scope.

(* all byte strings, all field tables whose widths are at least 1 (the header grammar yields 1 and 2):
   headings, the hex dump of all the bytes, then one line per non-zero field among those that fit *)
Theorem C16_hlog : forall (fields : list hfield) (d : bytes),
  Forall (fun f : hfield => (1 <= snd f)%nat) fields -> Forall (fun b => b < 256) d ->
  parse_hlog fields d =
  Some ([L "Hex Dump"; L "--------"] ++ hexdump d
        ++ [ [] ; L "Non-Zero Field Values"; L "---------------------"]
        ++ nonzero_lines (take_fitting fields d)).
Proof. exact parse_hlog_spec. Qed.
Print Assumptions C16_hlog.

(* [take_fitting] is the first k fields in order, k maximal with the first k widths fitting in the data *)
Theorem C16_take_fitting : forall (fields : list (text * nat)) (d : bytes),
  exists k, (k <= length fields)%nat /\
    map (fun f => fst (fst f)) (take_fitting fields d) = map fst (firstn k fields) /\
    map (fun f => snd (fst f)) (take_fitting fields d) = map snd (firstn k fields) /\
    (sum_widths (firstn k fields) <= length d)%nat /\
    (k < length fields -> length d < sum_widths (firstn (S k) fields))%nat.
Proof. exact take_fitting_prefix. Qed.
Print Assumptions C16_take_fitting.

(* the dump is lossless: the lines between the headings parse back to the record (C13), for any table *)
Theorem C16_dump_lossless : forall (fields : list hfield) (d : bytes) out,
  Forall (fun b => b < 256) d -> N.of_nat (length d) + 16 <= 2 ^ 32 ->
  parse_hlog fields d = Some out ->
  exists dump rest, out = [L "Hex Dump"; L "--------"] ++ dump
                          ++ [ [] ; L "Non-Zero Field Values"; L "---------------------"] ++ rest /\
                    length dump = Nat.div (length d + 15) 16 /\ parse default_fmt dump = d.
Proof. exact parse_hlog_dump_lossless. Qed.
Print Assumptions C16_dump_lossless.

(* outside the stated domain: a declared width of 0 trips check_range's assertion (no output) *)
Theorem C16_zero_width : forall name t d, parse_hlog ((name, 0%nat) :: t) d = None.
Proof. exact hlog_zero_width. Qed.
Print Assumptions C16_zero_width.


(* the history-log table grammar is the published one *)
Theorem C16_source_table_grammar :
  Gen.Regexes.re_HLOG_START_RE = Spec.PublishedRegexes.re_HLOG_START_RE /\
  Gen.Regexes.re_HLOG_FIELD_RE = Spec.PublishedRegexes.re_HLOG_FIELD_RE /\
  Gen.Regexes.re_HLOG_END_RE = Spec.PublishedRegexes.re_HLOG_END_RE.
Proof. repeat split; reflexivity. Qed.
Print Assumptions C16_source_table_grammar.

(* SOURCE-TEXT tie of the field loop.  harness/extract_readers.py translates the stream statements of the body of
   `for field in fields` in parse_hlog_data (the range check with `break`, the read of field.size bytes) into the reader language
   of Model/StreamProg.v (Gen/Readers.v, regenerated every run).  One unrolling of the model's loop IS one run of the translated
   body started with field.size bound to the declared size, for every field list and byte string: `break` ends the display,
   a DataStream assertion (declared size 0) is the model's failure, and otherwise the value shown is the integer the translated
   body has read and the next field starts on the bytes it has left. *)
Theorem C16_source_field_loop : forall name size t d,
  hlog_loop ((name, size) :: t) d = ReaderLoopFacts.hlog_step name size t d.
Proof. exact ReaderLoopFacts.hlog_body_correct. Qed.
Print Assumptions C16_source_field_loop.

(* non-vacuity: the second field does not fit, the first is shown; a zero field is not shown *)
Example C16_example :
  parse_hlog [(L "a", 1%nat); (L "b", 2%nat); (L "c", 1%nat)] [1; 222] =
    Some [L "Hex Dump"; L "--------";
          L "00000000     01DE                                       ..              "; [];
          L "Non-Zero Field Values"; L "---------------------"; L "a: 0x01"] /\
  nonzero_lines (take_fitting [(L "a", 1%nat); (L "b", 2%nat); (L "c", 1%nat)] [0; 0; 173; 7]) =
    [L "b: 0x00AD"; L "c: 0x07"].
Proof. vm_compute. split; reflexivity. Qed.
