(* C14 — ILOG decoding reports every entry with the first matching table message.
   Only statements; every proof is [exact] of a lemma from Proofs/IlogFacts.v.
   The PTE table is abstract: any list of (pattern, message format, parameter list).  The header-file
   grammar that produces it is exercised by the harness (harness/props/c14.py), which hands the table read
   by the real PTETable to the model.  Scope of the model, stated: patterns made of ASCII characters that
   are not regular-expression metacharacters, plus '*' ([table_supported]); message formats within the
   %-conversions of Base/PyFmt.v (d i u x X o c s r a %%, flags, width, precision) - a line whose format is
   outside it is [DUnsupported] and the whole result [IUnsupported], never a wrong line. *)
From Coq Require Import List NArith Bool Arith.
From PV Require Gen.Regexes Spec.PublishedRegexes Model.StreamProg Gen.Readers Proofs.ReaderLoopFacts.
From PV Require Import Base.Bytes Base.Lit Base.PyFmt Gen.Tables Model.Ilog Spec.IoDrawer Proofs.IlogFacts.
Import ListNotations.
Open Scope N_scope.

(* the constants in the working tree are the ones the statements below use *)
Theorem C14_consts_agree :
  ilog_ILOG_ENTRY_SIZE = 8 /\ ilog_ERROR_MASK = 0xF0000000 /\ ilog_ERROR_VALUE = 0xE0000000 /\
  ilog_REPORTED_MASK = 0x00040000 /\ ilog_REPORTED_VALUE = 0x00040000.
Proof. exact ilog_consts_agree. Qed.
Print Assumptions C14_consts_agree.

(* all byte strings, all tables: after the two heading lines, one line per complete 8-byte entry that is
   not all zero, in order; a trailing partial entry is ignored *)
Theorem C14_lines : forall (tbl : list pte_entry) (d : bytes),
  parse_ilog tbl d =
  if table_supported tbl
  then with_heading (lines_of (map (line tbl) (filter nonzero (entries8 d))))
  else IUnsupported.
Proof. exact parse_ilog_spec. Qed.
Print Assumptions C14_lines.

(* the same, read from the result: whenever the model answers with lines they are exactly these *)
Theorem C14_lines_ok : forall tbl d ls, parse_ilog tbl d = IOk ls ->
  exists texts, ls = [L "hh:mm:ss seq  pppppppp description";
                      L "-------- ---- -------- ------------------------------------"] ++ texts /\
                map (line tbl) (filter nonzero (entries8 d)) = map DOk texts.
Proof. exact parse_ilog_ok. Qed.
Print Assumptions C14_lines_ok.

(* progress: the entry loop never runs out of fuel (length + 1 suffices) and no range assertion fails *)
Theorem C14_total : forall tbl d, parse_ilog tbl d <> IOutOfFuel /\ parse_ilog tbl d <> IAssert.
Proof. exact parse_ilog_total. Qed.
Print Assumptions C14_total.

(* one line: timestamp, sequence number and PTE exactly as stored, description *)
Theorem C14_line : forall tbl e, Forall (fun b => b < 256) e -> length e = 8%nat ->
  line tbl e =
  match descr tbl (be_val (skipn 4 e) 0) with
  | DOk m => DOk (ts_text (be_value (firstn 2 e)) ++ [32] ++ stored_hex (firstn 2 (skipn 2 e)) ++ [32]
                  ++ stored_hex (skipn 4 e) ++ [32] ++ m)
  | DUnsupported => DUnsupported
  end.
Proof. exact line_spec. Qed.
Print Assumptions C14_line.

(* the description is the message of the FIRST entry, in table order, that the PTE hits - as is, or with
   the reported flag cleared when it is a reported error - and "Undefined" when none does *)
Theorem C14_first : forall tbl pte, pte < 2 ^ 32 ->
  (forall pre e post, tbl = pre ++ e :: post -> hits (e_pat e) pte ->
     (forall e', In e' pre -> ~ hits (e_pat e') pte) -> descr tbl pte = get_message e pte) /\
  ((forall e, In e tbl -> ~ hits (e_pat e) pte) -> descr tbl pte = DOk (L "Undefined")).
Proof. exact descr_first. Qed.
Print Assumptions C14_first.

(* the message: format filled with the parameter bytes (raw format when Python's % raises), and the suffix
   exactly when the PTE is an error (F0000000 -> E0000000) with the reported flag (00040000) *)
Theorem C14_suffix : forall e pte, pte < 2 ^ 32 ->
  get_message e pte =
  match message (e_fmt e) (param_values (e_params e) (be_bytes 4 pte)) with
  | Some m => DOk (m ++ if reported_error pte then L " - PEL entry created" else [])
  | None => DUnsupported
  end.
Proof. exact get_message_spec. Qed.
Print Assumptions C14_suffix.

(* the parameters are the designated ones of the four PTE bytes as stored (parameter p = p-th byte) *)
Theorem C14_params : forall e bs, Forall (fun b => b < 256) bs -> length bs = 4%nat ->
  get_message e (be_val bs 0) =
  match message (e_fmt e) (param_values (e_params e) bs) with
  | Some m => DOk (m ++ if reported_error (be_val bs 0) then L " - PEL entry created" else [])
  | None => DUnsupported
  end.
Proof. exact get_message_stored. Qed.
Print Assumptions C14_params.

(* timestamps: every two-byte value *)
Theorem C14_timestamp : forall t, t < 65536 -> format_timestamp t = ts_text t.
Proof. exact format_timestamp_spec. Qed.
Print Assumptions C14_timestamp.


(* the PTE table grammar (the harness reads the tables through the repository's parser) is the published one *)
Theorem C14_source_table_grammar :
  Gen.Regexes.re_TBL_START_RE = Spec.PublishedRegexes.re_TBL_START_RE /\
  Gen.Regexes.re_TBL_ENTRY_RE = Spec.PublishedRegexes.re_TBL_ENTRY_RE /\
  Gen.Regexes.re_TBL_END_RE = Spec.PublishedRegexes.re_TBL_END_RE.
Proof. repeat split; reflexivity. Qed.
Print Assumptions C14_source_table_grammar.

(* SOURCE-TEXT tie of the entry loop.  harness/extract_readers.py translates the loop `while stream.check_range(ILOG_ENTRY_SIZE)`
   of parse_ilog_data and the stream statements of its body (the three reads, the all-zero `continue`) into the reader language of
   Model/StreamProg.v (Gen/Readers.v, regenerated every run).  One unrolling of the model's loop IS one run of the translated
   body, for every table, fuel and byte string: the loop continues exactly while the translated guard is in range, a run that
   ends in `continue` produces no line, one that falls through produces the line of the three integers it has read, and the
   next iteration starts on the bytes the translated body has left. *)
Theorem C14_source_entry_loop : forall f tbl d,
  ilog_loop (S f) tbl d = ReaderLoopFacts.ilog_step f tbl d.
Proof. exact ReaderLoopFacts.ilog_body_correct. Qed.
Print Assumptions C14_source_entry_loop.

(* non-vacuity: overlapping patterns (first wins), reported-flag retry with suffix, arity fallback,
   zero entry skipped, trailing partial entry ignored *)
Example C14_example :
  let tbl := [(L "E30877**", L "Fan %d missing", [4]);
              (L "E308****", L "later overlap", []);
              (L "0200****", L "level %c%c", [3; 4; 9]);
              (L "0143**00", L "bay %d", [3; 4])] in
  parse_ilog tbl [0;5; 0;1; 227;12;119;4;   0;0;0;0;0;0;0;0;   255;255; 0;2; 2;0;68;69;
                  0;60; 0;3; 1;67;1;0;   0;0; 0;4; 17;0;0;0;   1;2;3] =
  IOk [L "hh:mm:ss seq  pppppppp description";
       L "-------- ---- -------- ------------------------------------";
       L " 0:00:05 0001 E30C7704 Fan 4 missing - PEL entry created";
       L "-------- 0002 02004445 level DE";
       L " 0:01:00 0003 01430100 bay %d";
       L " 0:00:00 0004 11000000 Undefined"].
Proof. vm_compute. reflexivity. Qed.
