(* C07 — PEL selection follows the documented class / severity / --only rules. *)
From Coq Require Import List NArith Bool Arith.
From PV Require Import Base.Bytes Base.PelTypes Model.Select Spec.SelectRules Gen.Tables Proofs.SelectFacts Gen.SelectGen Proofs.SelectGenFacts.
From PV Require Spec.PublishedTables.
Import ListNotations.
Open Scope N_scope.

Theorem C07_consts_agree :
  ActionFlagsValues_serviceActionFlag = 32768 /\ ActionFlagsValues_hiddenActionFlag = 16384 /\ ActionFlagsValues_reportFlag = 8192 /\
  SeverityValues_infoSeverity = 0 /\ SeverityValues_critSysTermSeverity = 81.
Proof. exact select_consts_agree. Qed.
Print Assumptions C07_consts_agree.
Theorem C07_groups_agree : Gen.Tables.severityGroupValues = PublishedTables.severityGroupValues.
Proof. vm_compute. reflexivity. Qed.
Print Assumptions C07_groups_agree.

(* the decision cascade equals the documented rules - all 256 severity bytes, all flag words (unbounded N in fact),
   all 64 switch combinations, every list of severity groups *)
Theorem C07_rules : forall c u, lookup c = false -> consider c u = select c u.
Proof. exact consider_select. Qed.
Print Assumptions C07_rules.

(* hidden / serviceable / group membership are read from exactly the documented bits *)
Theorem C07_hidden : forall u, is_hidden u = hidden u.
Proof. exact is_hidden_spec. Qed.
Print Assumptions C07_hidden.
Theorem C07_serviceable : forall u, is_serviceable u = serviceable u.
Proof. exact is_serviceable_spec. Qed.
Print Assumptions C07_serviceable.
Theorem C07_group : forall u g, in_group u g = member u g.
Proof. exact in_group_spec. Qed.
Print Assumptions C07_group.

(* no selection option: exactly the serviceable, customer-viewable PELs *)
Theorem C07_default : forall c u, every c = false -> term c = false -> svc c = false -> nsvc c = false -> hid c = false ->
  only c = false -> sevs c = [] -> lookup c = false -> consider c u = default_set u.
Proof. exact default_selection. Qed.
Print Assumptions C07_default.

(* an id or SRC look-up without selection options considers every PEL, hidden and non-serviceable ones included *)
Theorem C07_lookup_bypass : forall c u, every c = false -> term c = false -> svc c = false -> nsvc c = false -> hid c = false ->
  only c = false -> sevs c = [] -> lookup c = true -> consider c u = true.
Proof. exact lookup_considers_all. Qed.
Print Assumptions C07_lookup_bypass.

(* ---- the tie to the source itself ----
   Gen/SelectGen.v is produced on every run from the SOURCE TEXT of considerPEL, considerPELIfSeverityMatches,
   UserHeader.isHidden and UserHeader.isServiceable (harness/translate_select.py, a fail-closed Python-ast translator).  What the
   source says now is the model the theorems above are about, for every configuration and every user header: *)
Theorem C07_source_is_model : forall c u, gen_consider c u = consider c u.
Proof. exact gen_consider_is_model. Qed.
Print Assumptions C07_source_is_model.

(* ... and so the source text itself follows the documented rules *)
Theorem C07_source_rules : forall c u, lookup c = false -> gen_consider c u = select c u.
Proof. intros c u H. rewrite gen_consider_is_model. apply C07_rules. exact H. Qed.
Print Assumptions C07_source_rules.

(* non-vacuity: severity 0x05 is Informational (group 0), not Critical (group 5) *)
Example C07_example :
  let u := {| uh_hdr := {| h_ver := 1; h_sub := 0; h_comp := 0 |}; uh_len := 24; uh_subsys := 0; uh_scope := 0; uh_sev := 5; uh_etype := 0;
              uh_res4 := 0; uh_domain := 0; uh_vector := 0; uh_flags := 0; uh_states := 0 |} in
  let c g := {| every := false; term := false; svc := false; nsvc := false; hid := false; only := true; sevs := [g]; lookup := false |} in
  consider (c 0) u = true /\ consider (c 5) u = false.
Proof. vm_compute. split; reflexivity. Qed.
