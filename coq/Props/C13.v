(* C13 — hex dumps are lossless.  Only statements; every proof is [exact] of a lemma from Proofs/. *)
From Coq Require Import List NArith Bool Arith.
From PV Require Import Base.Bytes Base.Lit Model.Hexdump Spec.DumpFormats Gen.Tables
                       Proofs.BytesFacts Proofs.HexdumpFacts Proofs.HexdumpRoundtrip
                       Proofs.HexdumpComments.
Import ListNotations.
Open Scope N_scope.

(* the templates the code ships are the ones the theorems are about (regenerated from /repo every run) *)
Theorem C13_formats_agree :
  Gen.Tables.DEFAULT_LINE_FORMAT = default_fmt /\ Gen.Tables.HEX_DUMP_LINE_FORMATS = [fmt1; fmt2] /\
  d_runs_even default_fmt 0 = true /\ d_runs_even fmt1 0 = true /\ d_runs_even fmt2 0 = true.
Proof. repeat split; vm_compute; reflexivity. Qed.
Print Assumptions C13_formats_agree.

(* one line per started line of data, for every permitted layout *)
Theorem C13_line_count : forall bpl bpc d ls, hexdump_gen bpl bpc d = Some ls ->
  length ls = Nat.div (length d + bpl - 1) bpl.
Proof. exact hexdump_line_count. Qed.
Print Assumptions C13_line_count.

Theorem C13_layout_domain : forall bpl bpc d,
  (exists ls, hexdump_gen bpl bpc d = Some ls) <-> (1 <= bpl <= 256 /\ 1 <= bpc <= 256)%nat.
Proof. exact hexdump_gen_domain. Qed.
Print Assumptions C13_layout_domain.

(* all lines equally wide, each beginning with its 8-digit offset (data below 4 GiB) *)
Theorem C13_equal_width : forall bpl bpc d ls, hexdump_gen bpl bpc d = Some ls ->
  Forall (fun b => b < 256) d -> N.of_nat (length d) + N.of_nat bpl <= 2 ^ 32 ->
  Forall (fun t => length t = line_width bpl bpc) ls /\ offsets_ok bpl 0 ls.
Proof. exact hexdump_equal_width. Qed.
Print Assumptions C13_equal_width.

(* parsing a default-format dump returns exactly the original bytes *)
Theorem C13_roundtrip : forall d, Forall (fun b => b < 256) d -> N.of_nat (length d) + 16 <= 2 ^ 32 ->
  parse default_fmt (hexdump d) = d.
Proof. exact hexdump_roundtrip. Qed.
Print Assumptions C13_roundtrip.

(* ... as does parsing the same bytes rendered in either I/O-drawer format (upper or lower case digits,
   short last line included: [chunk 16 d] ends with a block of 1..16 bytes) *)
Theorem C13_roundtrip_io1 : forall dig d, good_dig dig -> Forall (fun b => b < 256) d -> parse fmt1 (render1 dig d) = d.
Proof. exact render1_roundtrip. Qed.
Print Assumptions C13_roundtrip_io1.
Theorem C13_roundtrip_io2 : forall dig d, good_dig dig -> Forall (fun b => b < 256) d -> parse fmt2 (render2 dig d) = d.
Proof. exact render2_roundtrip. Qed.
Print Assumptions C13_roundtrip_io2.
Theorem C13_digits : good_dig hexdigU /\ good_dig hexdigL.
Proof. exact (conj good_digU good_digL). Qed.
Print Assumptions C13_digits.

(* comment lines (empty, or starting with a non-hex character) and blank lines change nothing *)
Theorem C13_comments : forall fmt ls, (exists f ft, fmt = f :: ft /\ (f = cA \/ f = cD)) ->
  parse fmt ls = parse fmt (filter (fun t => negb (is_comment_line t)) ls).
Proof. exact parse_ignores_comments. Qed.
Print Assumptions C13_comments.

(* the two clauses joined: a dump line is never taken for a comment (every permitted layout, every offset), so a
   default-format dump with comment or blank lines anywhere between its lines still parses to exactly the original bytes *)
Theorem C13_dump_lines_kept : forall bpl bpc d ls, hexdump_gen bpl bpc d = Some ls ->
  filter (fun t => negb (is_comment_line t)) ls = ls.
Proof. exact hexdump_gen_no_comment_lines. Qed.
Print Assumptions C13_dump_lines_kept.
Theorem C13_roundtrip_among_comments : forall d ls,
  Forall (fun b => b < 256) d -> N.of_nat (length d) + 16 <= 2 ^ 32 ->
  filter (fun t => negb (is_comment_line t)) ls = hexdump d -> parse default_fmt ls = d.
Proof. exact hexdump_roundtrip_among_comments. Qed.
Print Assumptions C13_roundtrip_among_comments.
(* its hypothesis is met: a comment line before every dump line and after the last *)
Theorem C13_roundtrip_interleaved : forall c d, is_comment_line c = true ->
  Forall (fun b => b < 256) d -> N.of_nat (length d) + 16 <= 2 ^ 32 ->
  parse default_fmt (interleave c (hexdump d)) = d.
Proof. exact hexdump_roundtrip_interleaved. Qed.
Print Assumptions C13_roundtrip_interleaved.

(* the --hex display reproduces the bytes between its begin/end markers *)
Theorem C13_hex_display : forall d, Forall (fun b => b < 256) d -> N.of_nat (length d) + 16 <= 2 ^ 32 ->
  parse default_fmt (between_markers (print_hex d) false) = d.
Proof. exact print_hex_roundtrip. Qed.
Print Assumptions C13_hex_display.

(* non-vacuity: a concrete 19-byte input meets the hypotheses and round-trips by computation *)
Example C13_example : parse default_fmt (hexdump [0;31;32;126;127;255;1;2;3;4;5;6;7;8;9;10;11;12;13]) =
  [0;31;32;126;127;255;1;2;3;4;5;6;7;8;9;10;11;12;13].
Proof. vm_compute. reflexivity. Qed.
