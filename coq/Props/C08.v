(* C08 — list, count and display-all agree on the same PELs, in file-name order. *)
From Coq Require Import List NArith ZArith Bool Arith Sorting.Sorted.
From PV Require Gen.Layouts Spec.PublishedLayouts.
From PV Require Import Base.Bytes Base.Lit Base.Json Base.TextOrder Base.PelTypes Model.Render Model.Pel Model.Select Model.Cli Model.CliPel
                       Spec.Encode Gen.Tables Proofs.TextOrderFacts Proofs.CliFacts Proofs.SummaryFacts.
Import ListNotations.
Open Scope N_scope.

(* in a directory whose files are well-formed, displayable PELs the three partial decoders (two headers / up to the primary
   SRC / everything) accept exactly the same files - the ones the selection options choose *)
Theorem C08_wellformed : forall e c s content names,
  (forall n, In n names -> exists p t, wf_pel p /\ renderable e c p /\ content n = encode p ++ t) ->
  agree (decoders_of e c s) content names.
Proof. exact wf_directory_agrees. Qed.
Print Assumptions C08_wellformed.
Theorem C08_selected_iff_considered : forall e c s p t, wf_pel p -> renderable e c p ->
  let d := decoders_of e c s in
  is_got (d_count d (encode p ++ t)) = consider s (p_uh p) /\
  is_got (d_summary d (encode p ++ t)) = consider s (p_uh p) /\
  is_got (d_full d (encode p ++ t)) = consider s (p_uh p).
Proof. exact wf_decoders_agree. Qed.
Print Assumptions C08_selected_iff_considered.

(* then --list and --all-pels present the same files in the same order, and --show-pel-count reports their number *)
Theorem C08_same_selection : forall d content c names, agree d content names ->
  list_names d c content names = all_names d c content names.
Proof. exact list_all_same. Qed.
Print Assumptions C08_same_selection.
Theorem C08_count : forall d content c names, agree d content names ->
  mode_count d c content names = OutCount (length (all_names d c content names)) /\
  length (list_names d c content names) = length (all_names d c content names).
Proof. exact count_is_length. Qed.
Print Assumptions C08_count.

(* ascending file-name order; --reverse is exactly the reverse sequence; --extension restricts all modes *)
Theorem C08_sorted : forall d content ext hexm names,
  StronglySorted le (all_names d {| c_ext := ext; c_rev := false; c_hex := hexm |} content names) /\
  StronglySorted le (list_names d {| c_ext := ext; c_rev := false; c_hex := hexm |} content names).
Proof. exact ascending. Qed.
Print Assumptions C08_sorted.
Theorem C08_reverse : forall d content ext hexm names,
  all_names d {| c_ext := ext; c_rev := true; c_hex := hexm |} content names =
  rev (all_names d {| c_ext := ext; c_rev := false; c_hex := hexm |} content names) /\
  list_names d {| c_ext := ext; c_rev := true; c_hex := hexm |} content names =
  rev (list_names d {| c_ext := ext; c_rev := false; c_hex := hexm |} content names).
Proof. exact reverse_is_rev. Qed.
Print Assumptions C08_reverse.
Theorem C08_extension : forall e r names, file_list (Some e) r names = file_list None r (filter (ext_ok (Some e)) names).
Proof. exact extension_restricts. Qed.
Print Assumptions C08_extension.
Theorem C08_extension_only : forall e r names n, In n (file_list (Some e) r names) -> e <> [] -> splitext_ext n = e.
Proof. exact extension_only. Qed.
Print Assumptions C08_extension_only.


(* ---- the tie to the source text ----
   the fields of a --list entry, each with the expression of the full decode it is taken from (the reference code of the primary SRC,
   the PLID / creator / created-by of the private header, subsystem / severity of the user header), as extracted on every run from the
   source text of parsePELSummary (harness/extract_layouts.py) equal the published table *)
Theorem C08_source_summary_fields :
  Gen.Layouts.ok_Summary = true /\ Gen.Layouts.sh_Summary = Spec.PublishedLayouts.sh_Summary.
Proof. split; reflexivity. Qed.
Print Assumptions C08_source_summary_fields.

(* each --list entry's PLID, creator, subsystem, commit time, severity and component are the fields of the same decoded
   headers the full document shows, and its SRC is the reference code of the first Primary SRC section of the full decode *)
Theorem C08_summary_fields : forall e c cs data eid sm,
  decode_summary e c cs data = PGot (eid, sm) ->
  exists ph cr phj uh uhj rest src,
    decode_headers e data = HOk ph cr phj uh uhj rest /\
    eid = L "0x" ++ hexU 8 (ph_eid ph) /\
    sm = JObj ((match src with Some r => [(L "SRC", JStr r)] | None => [] end) ++
               [(L "PLID", jfield phj (L "Platform Log Id")); (L "CreatorID", jfield phj (L "Creator Subsystem"));
                (L "Subsystem", jfield uhj (L "Subsystem")); (L "Commit Time", jfield phj (L "Committed at"));
                (L "Sev", jfield uhj (L "Event Severity")); (L "CompID", jfield phj (L "Created by"))]) /\
    summary_src e c cr (N.to_nat (ph_count ph) - 2) rest = Some (Some src).
Proof. exact summary_fields_source. Qed.
Print Assumptions C08_summary_fields.
Theorem C08_full_fields : forall e c cs data eid doc,
  decode_full e c cs data = PGot (eid, JObj doc) ->
  exists ph cr phj uh uhj rest secs,
    decode_headers e data = HOk ph cr phj uh uhj rest /\ eid = hexU 8 (ph_eid ph) /\
    decode_sections e c cr (N.to_nat (ph_count ph) - 2) rest = Some (Some secs) /\
    doc = build_output [(section_name SectionID_privateHeader, JObj phj); (section_name SectionID_userHeader, JObj uhj)] secs.
Proof. exact full_fields_source. Qed.
Print Assumptions C08_full_fields.
Theorem C08_summary_src : forall e c cr n data r secs,
  summary_src e c cr n data = Some (Some (Some r)) -> decode_sections e c cr n data = Some (Some secs) ->
  exists pre o post, secs = pre ++ (section_name SectionID_primarySRC, o) :: post /\
    obj_get o (L "Reference Code") = Some (JStr r) /\ (length pre < n)%nat.
Proof. exact summary_src_in_sections. Qed.
Print Assumptions C08_summary_src.

Example C08_example : file_list (Some (L ".pel")) true [L "b.pel"; L "a.txt"; L "c.pel"; L "a.pel"; L ".pel"] = [L "c.pel"; L "b.pel"; L "a.pel"].
Proof. vm_compute. reflexivity. Qed.
