(* C20 — hardware-diagnostics signatures and register dumps are decoded field-exactly. *)
From Coq Require Import List NArith ZArith Bool Arith.
From PV Require Import Base.Bytes Base.Lit Base.Json Model.Hwdiags Spec.HwdiagsSpec Proofs.HwdiagsFacts.
Import ListNotations.
Open Scope N_scope.
