(* C20 — hardware-diagnostics signatures and register dumps are decoded field-exactly.
   Only statements; every proof is [exact] of a lemma from Proofs/HwdiagsFacts.v.

   Reading guide.  [cd : chipdata] is the content of the chip-data files (an arbitrary environment: no file,
   files with any key missing at any level, any strings).  [asig]/[achip]/[areg] are numbers of the stated
   widths; [encode_*] lay them out big-endian at the stated byte positions; [*_render] is the display the
   property prescribes, computed from the numbers (Spec/HwdiagsSpec.v).  [get_signature], [oe500_ud],
   [oe500_src] are the model of ParserData.get_signature, udparsers.oe500.parseUDToJson and
   srcparsers.oe500.parseSRCToJson (Model/Hwdiags.v).  [spells w b]: the hex word w, in any letter case,
   spells the bytes b. *)
From Coq Require Import List NArith ZArith Bool Arith.
From PV Require Model.Pretty Model.JsonLoads Proofs.JsonLoadsFacts.
From PV Require Gen.Regexes Spec.PublishedRegexes.
From PV Require Import Base.Bytes Base.Lit Base.Json Base.Utf8 Model.Hwdiags Spec.HwdiagsSpec
                       Proofs.HwdiagsUtf8 Proofs.HwdiagsFacts.
Import ListNotations.
Open Scope N_scope.

(* every signature of the stated widths, every chip-data environment, every letter case of the three words:
   the fields shown are those at bytes 0-3 / 4-5 / 6 / 7 / 8-9 / 10 / 11 *)
Theorem C20_signature : forall cd s wa wb wc, asig_wf s ->
  spells wa (word_a s) -> spells wb (word_b s) -> spells wc (word_c s) ->
  get_signature cd wa wb wc = Some (sig_render cd s).
Proof. exact get_signature_spells. Qed.
Print Assumptions C20_signature.

(* "all 2^96 signatures": every 12 bytes are the encoding of a well-formed abstract signature *)
Theorem C20_signature_onto : forall bs, length bs = 12%nat -> Forall (fun b => b < 256) bs ->
  exists s, asig_wf s /\ encode_sig s = bs.
Proof. exact encode_sig_onto. Qed.
Print Assumptions C20_signature_onto.

(* letter case is invisible, for arbitrary texts (also those that are rejected) *)
Theorem C20_case : forall cd a b c,
  get_signature cd (upper a) (upper b) (upper c) = get_signature cd (lower a) (lower b) (lower c) /\
  get_signature cd (lower a) (lower b) (lower c) = get_signature cd a b c.
Proof. exact (fun cd a b c => conj (get_signature_case cd a b c) (get_signature_lower cd a b c)). Qed.
Print Assumptions C20_case.

(* for every chip-data environment the result is defined; without a file for the chip it is the raw-number
   rendering; with a file, each of the five look-ups (type, description, signature name, bit description,
   attention name) that finds nothing ([None]) contributes its raw number (see chip_text/sig_text/attn_text) *)
Theorem C20_fallback : forall cd s wa wb wc, asig_wf s ->
  spells wa (word_a s) -> spells wb (word_b s) -> spells wc (word_c s) ->
  (exists c g a, get_signature cd wa wb wc = Some (sig_fields c g a)) /\
  (find_chip cd (a_model s) = None -> get_signature cd wa wb wc = Some (sig_render_raw s)) /\
  get_signature cd wa wb wc = Some (sig_fields
    (chip_text (cd_type cd (a_model s)) (cd_desc cd (a_model s)) (a_model s) (a_node s) (a_pos s))
    (sig_text (cd_signame cd (a_model s) (a_id s)) (cd_sigbit cd (a_model s) (a_id s) (a_bit s)) (a_id s) (a_inst s) (a_bit s))
    (attn_text (cd_attn cd (a_model s) (a_attn s)) (a_attn s))).
Proof. exact signature_fallback. Qed.
Print Assumptions C20_fallback.

(* a signature list of any count (below 2^32) decodes to the list of its signatures, in order; bytes after
   the last signature are ignored *)
Theorem C20_siglist : forall cd l rest version, Forall asig_wf l -> N.of_nat (length l) < 2 ^ 32 ->
  oe500_ud cd 1 version (encode_siglist l ++ rest) = HwOk (siglist_render cd l).
Proof. exact siglist_ok. Qed.
Print Assumptions C20_siglist.

(* a register dump lists every chip and every register in order with id, instance, address and data; the
   only requirement on the chip data is that the addresses it gives for these registers are hex numbers
   (otherwise int(.., 16) raises, in the model too) *)
Theorem C20_regdump : forall cd l rest version, regdump_wf l -> regdump_addrs_ok cd l ->
  oe500_ud cd 2 version (encode_regdump l ++ rest) = HwOk (regdump_render cd l).
Proof. exact regdump_ok. Qed.
Print Assumptions C20_regdump.

(* ... which holds for every dump when the chip data has no malformed address, in particular with no chip data *)
Theorem C20_regdump_env : forall cd l, cd_addrs_wf cd -> regdump_addrs_ok cd l.
Proof. exact addrs_wf_ok. Qed.
Print Assumptions C20_regdump_env.
Theorem C20_regdump_nodata : cd_addrs_wf [].
Proof. exact nodata_addrs_wf. Qed.
Print Assumptions C20_regdump_nodata.

(* "exactly its data bytes": the data column of a register line reads back as the encoded bytes *)
Theorem C20_regdump_data : forall d, Forall (fun b => b < 256) d -> data_back (join (L " ") (data_groups d)) = d.
Proof. exact data_back_ok. Qed.
Print Assumptions C20_regdump_data.

(* scratch registers: both pairs shown (the two keys can never coincide), values digit for digit *)
Theorem C20_scratch : forall cd version ca cv sa sv rest,
  oe500_ud cd 4 version (encode_scratch ca cv sa sv ++ rest) = HwOk (scratch_render ca cv sa sv).
Proof. exact scratch_ok. Qed.
Print Assumptions C20_scratch.
Theorem C20_scratch_sig : forall cd version chipid sigid rest,
  oe500_ud cd 5 version (encode_scratch_sig chipid sigid ++ rest) = HwOk (scratch_sig_render chipid sigid).
Proof. exact scratch_sig_ok. Qed.
Print Assumptions C20_scratch_sig.
(* the n digits shown determine a value below 16^n (32-bit values: 8 digits, 64-bit values: 16 digits) *)
Theorem C20_hex_faithful : forall n v, v < 16 ^ N.of_nat n -> hexnum (hex_fixed hexdigL n v) = v.
Proof. exact hex_shown_faithful. Qed.
Print Assumptions C20_hex_faithful.

(* callout FFDC: a text that does not end in U+0000, encoded as UTF-8 and padded with any number of NULs,
   is shown as the value json.loads gives for exactly that text *)
Theorem C20_ffdc : forall cd version t b k, utf8_encode t = Some b -> ends_nul t = false ->
  oe500_ud cd 3 version (b ++ repeat 0 k) = ffdc_render t.
Proof. exact ffdc_ok. Qed.
Print Assumptions C20_ffdc.

(* ... and that value is the encoded one: for every JSON value j (no floats, strings without an adjacent surrogate pair, distinct keys, integers
   within the digit limit, nesting <= 200) and every text of it - json.dumps(j), json.dumps(j, indent=..), any blanks - the
   section shows j itself; text json.loads rejects makes the parser raise (the PEL layer then shows the error note and the
   hex dump, C04 / C18) *)
Theorem C20_ffdc_value : forall t j, Pretty.tokens t = Some (JsonLoadsFacts.toks j) -> JsonLoadsFacts.wf_json j ->
  ffdc_render t = HwOk (JObj [(L "Callout List FFDC", j)]).
Proof.
  intros t j Ht Hj. unfold ffdc_render, ffdc_of_text. rewrite (JsonLoadsFacts.loads_of_tokens t j Ht Hj). reflexivity.
Qed.
Print Assumptions C20_ffdc_value.

Theorem C20_ffdc_not_json : forall t, JsonLoads.loads t = JsonLoads.LError -> ffdc_render t = HwRaise.
Proof. intros t H. unfold ffdc_render, ffdc_of_text. rewrite H. reflexivity. Qed.
Print Assumptions C20_ffdc_not_json.

(* SRC details use words 6..8 (words 2..5 and 9 are arbitrary) and characters 6..7 of the reference code *)
Theorem C20_src : forall cd refcode s w2 w3 w4 w5 w6 w7 w8 w9, asig_wf s ->
  spells w6 (word_a s) -> spells w7 (word_b s) -> spells w8 (word_c s) ->
  oe500_src cd refcode [w2; w3; w4; w5; w6; w7; w8; w9] = HwOk (src_render cd refcode s).
Proof. exact src_ok. Qed.
Print Assumptions C20_src.

(* other sub-types give null; no input makes a loop run out of fuel (termination); truncated signature lists
   and scratch sections are rejected, never rendered *)
Theorem C20_other_subtype : forall cd sub version data, 6 <= sub \/ sub = 0 -> oe500_ud cd sub version data = HwOk JNull.
Proof. exact other_subtype_null. Qed.
Print Assumptions C20_other_subtype.
Theorem C20_no_fuel : forall cd sub version data, oe500_ud cd sub version data <> HwFuel.
Proof. exact oe500_ud_no_fuel. Qed.
Print Assumptions C20_no_fuel.
Theorem C20_siglist_truncated : forall cd l version k, Forall asig_wf l -> N.of_nat (length l) < 2 ^ 32 ->
  (k < length (encode_siglist l))%nat -> oe500_ud cd 1 version (firstn k (encode_siglist l)) = HwRaise.
Proof. exact siglist_truncated. Qed.
Print Assumptions C20_siglist_truncated.
Theorem C20_scratch_truncated : forall cd version data,
  ((length data < 24)%nat -> oe500_ud cd 4 version data = HwRaise) /\
  ((length data < 8)%nat -> oe500_ud cd 5 version data = HwRaise).
Proof. exact (fun cd v d => conj (scratch_truncated cd v d) (scratch_sig_truncated cd v d)). Qed.
Print Assumptions C20_scratch_truncated.


(* the hex-field checks of the chip data are the published expressions *)
Theorem C20_source_hex_checks :
  Gen.Regexes.re_HEX1 = Spec.PublishedRegexes.re_HEX1 /\
  Gen.Regexes.re_HEX2 = Spec.PublishedRegexes.re_HEX2 /\
  Gen.Regexes.re_HEX3 = Spec.PublishedRegexes.re_HEX3 /\
  Gen.Regexes.re_HEX4 = Spec.PublishedRegexes.re_HEX4.
Proof. repeat split; reflexivity. Qed.
Print Assumptions C20_source_hex_checks.

(* non-vacuity: a concrete signature under a concrete chip-data file, through the SRC plugin with
   upper-case words, and a one-register dump, by computation *)
Example C20_example :
  let ex_cd : chipdata :=
    [(L "20da0020", {| c_type := Some (L "PROC"); c_desc := None; c_attn := [(L "2", L "UNIT_CS")];
                       c_sigs := [(L "55aa", {| sg_name := L "EQ_FIR"; sg_bits := [(L "7", L "parity error")] |})];
                       c_regs := [(L "abcdef", {| rg_name := L "EQ_FIR_MASK"; rg_addrs := [(L "3", L "0x20010A45")] |})] |})] in
  oe500_src ex_cd (L "BD8D5610") [L "0"; L "0"; L "0"; L "0"; L "20DA0020"; L "12340502"; L "55AA0307"; L "0"]
  = HwOk (JObj [(L "Primary Attention", JStr (L "system checkstop"));
                (L "Signature Description",
                 JObj [(L "Chip Desc", JStr (L "node 5 PROC 4660 (20DA0020)"));
                       (L "Signature", JStr (L "EQ_FIR(3)[7] parity error"));
                       (L "Attn Type", JStr (L "UNIT_CS"))])]) /\
  oe500_ud ex_cd 2 1 (encode_regdump [{| h_model := 551157792; h_pos := 1; h_node := 0;
                                         h_regs := [{| r_id := 11259375; r_inst := 3; r_data := [222; 173; 190] |}] |}])
  = HwOk (JObj [(L "Register Dump",
                 JArr [JStr (L "node 0 PROC 1 (20DA0020) ***********************************");
                       JStr (L "  EQ_FIR_MASK               (0x20010A45) DEAD BE")])]).
Proof. vm_compute. split; reflexivity. Qed.
