(* C06 — the printed JSON parses back to exactly the decoded document. *)
From Coq Require Import List NArith Bool Arith.
From Coq Require Import ZArith.
From PV Require Gen.Regexes Spec.PublishedRegexes.
From PV Require Import Base.Bytes Base.Lit Base.Json Model.Pretty Model.JsonLoads Proofs.PrettyFacts Proofs.JsonLoadsFacts.
Import ListNotations.
Open Scope N_scope.

(* Column alignment never changes the token sequence json.loads sees: for EVERY text (not only json.dumps output) and every
   width the lexer goes through the same tokens - keys and string values are untouched whatever characters they contain,
   whitespace is only inserted right after a key's colon.  (If the text is not lexically JSON both sides are None.) *)
Theorem C06_pretty_tokens : forall w s, tokens (pretty_print w s) = tokens s.
Proof. exact pretty_print_tokens. Qed.
Print Assumptions C06_pretty_tokens.

Theorem C06_pretty_run : forall w s ts, run (Out, ts) (pretty_print w s) = run (Out, ts) s.
Proof. exact pretty_print_run. Qed.
Print Assumptions C06_pretty_run.

Theorem C06_line : forall w line ts, run (Out, ts) (pp_line w line) = run (Out, ts) line.
Proof. exact pp_line_run. Qed.
Print Assumptions C06_line.

(* --all-pels prints one JSON array: "[", the documents separated by commas, "]" *)
Theorem C06_all_framing : forall docs tds, Forall2 complete docs tds ->
  tokens (all_output docs) = Some ([TP 91] ++ sep_tokens tds ++ [TP 93]).
Proof. exact all_output_tokens. Qed.
Print Assumptions C06_all_framing.

(* ---- the round trip itself, with json.loads modelled in Coq (Model/JsonLoads.v: CPython's scanner, OrderedDict pairs) ----
   wf_json j: no float in j, strings are any Python str that json round-trips (code points below 0x110000, no high surrogate directly followed by a low one; lone surrogates are fine), keys of one object pairwise distinct, integer
   literals within int()'s digit limit (4300), nesting at most depth_limit (200).  The documents the decoder produces meet this
   (their strings come from decoded text, keys are distinct by construction - C01_distinct_keys -, depth <= 6).  *)

(* json.loads reads json.dumps back, compact or indented *)
Theorem C06_loads_dumps : forall j, wf_json j -> loads (render j) = LOk j /\ loads (dumps4 0 j) = LOk j.
Proof. intros j H. split; [apply loads_render|apply loads_dumps4]; exact H. Qed.
Print Assumptions C06_loads_dumps.

(* what peltool prints for one PEL (-f, the files of -j) and for --list: prettyPrint(json.dumps(out, indent=4), width) *)
Theorem C06_printed_roundtrip : forall w j, wf_json j -> loads (pretty_print w (dumps4 0 j)) = LOk j.
Proof. exact loads_printed. Qed.
Print Assumptions C06_printed_roundtrip.

(* what --all-pels prints: "[", the printed documents separated by ",", "]" parses back to the list of the documents *)
Theorem C06_all_roundtrip : forall w (ls : list (list (text * json))), wf_json (JArr (map JObj ls)) ->
  loads (all_output (map (fun l => pretty_print w (dumps4 0 (JObj l))) ls)) = LOk (JArr (map JObj ls)).
Proof. exact all_output_loads. Qed.
Print Assumptions C06_all_roundtrip.

(* json.loads only sees the token sequence, so any text with the tokens of j parses to j *)
Theorem C06_loads_tokens : forall s j, tokens s = Some (toks j) -> wf_json j -> loads s = LOk j.
Proof. exact loads_of_tokens. Qed.
Print Assumptions C06_loads_tokens.

(* completeness of the parser for the JSON grammar: whatever spelling of the value j a text uses - any escapes inside its
   string literals (raw non-ASCII characters, \uXXXX, short escapes, surrogate pairs), "-0" for 0, any blanks - json.loads
   returns j.  [spells j T] is that grammar over token sequences; distinct keys per object is what a Python dict is. *)
Theorem C06_loads_any_spelling : forall s j T,
  tokens s = Some T -> spells j T -> keys_ok j -> (jdepth j <= depth_limit)%nat -> loads s = LOk j.
Proof. exact loads_spelling. Qed.
Print Assumptions C06_loads_any_spelling.


(* the key scan of prettyPrint is the published regular expression (the model's scan_body / pp_line mirror it): regenerated from /repo on every run *)
Theorem C06_source_key_regex :
  Gen.Regexes.re_KEY_RE = Spec.PublishedRegexes.re_KEY_RE.
Proof. repeat split; reflexivity. Qed.
Print Assumptions C06_source_key_regex.

(* the hypothesis is decidable; the extracted binary evaluates wf_jsonb on every document the decode model produces in the runs
   (evidence: doc-wf) *)
Theorem C06_wf_decidable : forall j, wf_jsonb j = true -> wf_json j.
Proof. exact wf_jsonb_sound. Qed.
Print Assumptions C06_wf_decidable.

Example C06_roundtrip_example :
  let j := JObj [(L "k""ey\: ", JArr [JNum (-5); JStr [34; 58; 233; 128512]; JObj []]); (L "", JNull)] in
  loads (pretty_print 34 (dumps4 0 j)) = LOk j.
Proof. vm_compute. reflexivity. Qed.

(* non-vacuity: a line whose string value contains a quote followed by a colon is left alone, a key line is aligned *)
Example C06_example :
  pretty_print 12 (L "{" ++ [10] ++ L "  ""k"": ""say \""hi\"": ok""," ++ [10] ++ L "  ""say \""hi\"": ok""" ++ [10] ++ L "}")
  = L "{" ++ [10] ++ L "  ""k"":         ""say \""hi\"": ok""," ++ [10] ++ L "  ""say \""hi\"": ok""" ++ [10] ++ L "}".
Proof. vm_compute. reflexivity. Qed.
