(* C06 — the printed JSON parses back to exactly the decoded document. *)
From Coq Require Import List NArith Bool Arith.
From PV Require Import Base.Bytes Base.Lit Model.Pretty Proofs.PrettyFacts.
Import ListNotations.
Open Scope N_scope.

(* Column alignment never changes the token sequence json.loads sees: for EVERY text (not only json.dumps output) and every
   width the lexer goes through the same tokens - keys and string values are untouched whatever characters they contain,
   whitespace is only inserted right after a key's colon.  (If the text is not lexically JSON both sides are None.) *)
Theorem C06_pretty_tokens : forall w s, tokens (pretty_print w s) = tokens s.
Proof. exact pretty_print_tokens. Qed.
Print Assumptions C06_pretty_tokens.

Theorem C06_pretty_run : forall w s ts, run (Out, ts) (pretty_print w s) = run (Out, ts) s.
Proof. exact pretty_print_run. Qed.
Print Assumptions C06_pretty_run.

Theorem C06_line : forall w line ts, run (Out, ts) (pp_line w line) = run (Out, ts) line.
Proof. exact pp_line_run. Qed.
Print Assumptions C06_line.

(* --all-pels prints one JSON array: "[", the documents separated by commas, "]" *)
Theorem C06_all_framing : forall docs tds, Forall2 complete docs tds ->
  tokens (all_output docs) = Some ([TP 91] ++ sep_tokens tds ++ [TP 93]).
Proof. exact all_output_tokens. Qed.
Print Assumptions C06_all_framing.

(* non-vacuity: a line whose string value contains a quote followed by a colon is left alone, a key line is aligned *)
Example C06_example :
  pretty_print 12 (L "{" ++ [10] ++ L "  ""k"": ""say \""hi\"": ok""," ++ [10] ++ L "  ""say \""hi\"": ok""" ++ [10] ++ L "}")
  = L "{" ++ [10] ++ L "  ""k"":         ""say \""hi\"": ok""," ++ [10] ++ L "  ""say \""hi\"": ok""" ++ [10] ++ L "}".
Proof. vm_compute. reflexivity. Qed.
