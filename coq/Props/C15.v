(* C15 — trace buffers decode entry by entry, stopping at the first malformed entry.
   Only statements; every proof is [exact] of a lemma from Proofs/TraceFacts.v.
   [parse_trace tbl d] is the model of io_drawer.trace.parse_trace_data (Model/Trace.v) over the parsed
   trace-string table [tbl]; the right-hand sides are specification-side definitions (Spec/TraceSpec.v). *)
From Coq Require Import List NArith ZArith Bool Arith.
From PV Require Gen.Regexes Spec.PublishedRegexes Model.StreamProg Gen.Readers Proofs.ReaderProgFacts Spec.PublishedCalloutLoop.
From PV Require Import Base.Bytes Base.Lit Model.Hexdump Model.TraceFmt Model.Trace Spec.TraceSpec Gen.Tables
                       Proofs.TraceFacts.
Import ListNotations.
Open Scope N_scope.

(* the constants the code ships are the ones the theorems are about (regenerated from /repo every run) *)
Theorem C15_constants_agree :
  Gen.Tables.TraceBufferHeader_SIZE = 32 /\
  Gen.Tables.TraceEntry_FIXED_SIZE = 16 /\
  Gen.Tables.TraceEntry_MAX_DATA_LEN = 1024 /\
  Gen.Tables.TraceEntry_TYPE_FIELDTRACE = 18004 /\
  Gen.Tables.TraceEntry_TYPE_FIELDBIN = 17988 /\
  Gen.Tables.TraceEntry_MAX_ARGS = 5 /\
  Gen.Tables.TraceBufferHeader_BUFFER_NAMES = [L "IICS"; L "IICM"; L "POWR"; L "FANS"; L "INFO"; L "ERRL"].
Proof. exact consts_agree. Qed.
Print Assumptions C15_constants_agree.

(* no header can be read: the whole input is hex-dumped ... *)
Theorem C15_no_header : forall tbl d, (length d < 32)%nat ->
  parse_trace tbl d = L "Unable to parse trace data." :: hexdump d.
Proof. exact parse_no_header. Qed.
Print Assumptions C15_no_header.

(* ... losslessly: parsing the dump lines returns the input *)
Theorem C15_no_header_lossless : forall tbl d, Forall (fun b => b < 256) d -> (length d < 32)%nat ->
  Hexdump.parse default_fmt (tl (parse_trace tbl d)) = d.
Proof. exact parse_no_header_lossless. Qed.
Print Assumptions C15_no_header_lossless.

(* a header is present: the output begins with component (bytes 4..15), version (byte 0), size (bytes
   20..23) and wrap count (bytes 24..27), a blank line and the two heading lines ([shown_header]) *)
Theorem C15_header : forall tbl d, Forall (fun b => b < 256) d -> (32 <= length d)%nat ->
  exists rest, parse_trace tbl d = shown_header d ++ rest.
Proof. exact parse_trace_header. Qed.
Print Assumptions C15_header.

(* ... followed by the display of exactly the entries [shown_entries] selects: the longest run of
   well-framed entries from offset 32, each beginning before the declared size; every entry is displayed
   by [show_entry] (timestamp, sequence, line as stored + message by exact / last partial / no match) *)
Theorem C15_entries : forall tbl d, Forall (fun b => b < 256) d -> (32 <= length d)%nat ->
  exists es, shown_entries (be_val (firstn 4 (skipn 20 d)) 0) 32 (skipn 32 d) es /\
    parse_trace tbl d = shown_header d ++ flat_map (fun e => show_entry tbl (entry_of e)) es.
Proof. exact parse_trace_entries. Qed.
Print Assumptions C15_entries.

(* [shown_entries] determines the list *)
Theorem C15_entries_unique : forall size idx d es1, shown_entries size idx d es1 ->
  forall es2, shown_entries size idx d es2 -> es1 = es2.
Proof. exact shown_entries_unique. Qed.
Print Assumptions C15_entries_unique.

(* the run stops (besides reaching the declared size) exactly at an entry that is truncated, has a data
   length above 1024, or whose trailing word is not 16 + length + pad + 4 *)
Theorem C15_stop_reasons : forall d, Forall (fun b => b < 256) d ->
  ((forall e rest, ~ framed d e rest) <-> unframed d).
Proof. exact not_framed_iff. Qed.
Print Assumptions C15_stop_reasons.

(* a well-formed buffer is displayed as exactly its entries, in order (whatever follows it, provided the
   declared size ends the buffer there or what follows is not itself a well-framed entry) *)
Theorem C15_roundtrip : forall tbl b rest, wf_buffer b -> Forall (fun x => x < 256) rest ->
  (ab_size b <= N.of_nat (length (encode_buffer b)) \/ forall e r, ~ framed rest e r) ->
  parse_trace tbl (encode_buffer b ++ rest) = expected_lines tbl b.
Proof. exact parse_trace_roundtrip. Qed.
Print Assumptions C15_roundtrip.
Theorem C15_nothing_follows : forall e r, ~ framed [] e r.
Proof. exact not_framed_nil. Qed.
Print Assumptions C15_nothing_follows.

(* message choice: what _format_trace_entry prints is what the property text says ... *)
Theorem C15_message : forall tbl e, format_entry tbl e = show_entry tbl e.
Proof. exact format_entry_eq. Qed.
Print Assumptions C15_message.
(* ... case by case: the first string with the same hash *)
Theorem C15_message_exact : forall tbl e s, exact_match tbl (e_hash e) = Some s ->
  format_entry tbl e = entry_line e (get_message (ts_format s) (args_of e)) :: (if is_binary e then dump_of e else []).
Proof. exact message_exact. Qed.
Print Assumptions C15_message_exact.
(* else the LAST string whose hash agrees modulo 100000, with a warning and the dump *)
Theorem C15_message_partial : forall tbl e s, exact_match tbl (e_hash e) = None ->
  last_opt (partial_matches tbl (e_hash e)) = Some s ->
  format_entry tbl e = entry_line e (get_message (ts_format s) (args_of e)) :: warning_line s :: dump_of e.
Proof. exact message_partial. Qed.
Print Assumptions C15_message_partial.
(* else a notice and the dump *)
Theorem C15_message_none : forall tbl e, exact_match tbl (e_hash e) = None -> partial_matches tbl (e_hash e) = [] ->
  format_entry tbl e = entry_line e (no_string_msg (e_hash e)) :: dump_of e.
Proof. exact message_none. Qed.
Print Assumptions C15_message_none.
(* binary entries always show their data *)
Theorem C15_binary_dumps : forall tbl e, is_binary e = true ->
  exists pre, pre <> [] /\ format_entry tbl e = pre ++ dump_of e.
Proof. exact binary_always_dumps. Qed.
Print Assumptions C15_binary_dumps.
(* the arguments are the complete big-endian 32-bit words of the data, at most five; none for binary entries *)
Theorem C15_args : forall e, get_args e = args_of e.
Proof. exact get_args_eq. Qed.
Print Assumptions C15_args.

(* progress: the entry loop and the decoder never run out of fuel when given more fuel than input bytes *)
Theorem C15_progress_loop : forall fuel size idx d, (length d < fuel)%nat -> read_entries fuel size idx d <> None.
Proof. exact read_entries_progress. Qed.
Print Assumptions C15_progress_loop.
Theorem C15_progress : forall tbl d fuel, (length d < fuel)%nat -> parse_trace_fuel fuel tbl d <> None.
Proof. exact parse_trace_progress. Qed.
Print Assumptions C15_progress.

(* what the extracted binary evaluates (one table lookup per entry) is the model, and the specification's
   expected display *)
Theorem C15_binary_is_model : forall tbl d, trace_fast tbl d = (trace_supported tbl d, parse_trace tbl d).
Proof. exact trace_fast_eq. Qed.
Print Assumptions C15_binary_is_model.
Theorem C15_binary_is_spec : forall tbl b, snd (spec_answer tbl b) = expected_lines tbl b.
Proof. exact spec_answer_lines. Qed.
Print Assumptions C15_binary_is_spec.


(* a string-file line is <hash>||<message>||<location> by the published regular expression (greedy message) *)
Theorem C15_source_line_regex :
  Gen.Regexes.re_LINE_RE = Spec.PublishedRegexes.re_LINE_RE.
Proof. repeat split; reflexivity. Qed.
Print Assumptions C15_source_line_regex.

(* SOURCE-TEXT tie of the two stream readers.  harness/extract_readers.py translates the statements of
   TraceBufferHeader.read and TraceEntry.read (io_drawer/trace.py) into programs of the reader language of Model/StreamProg.v
   (Gen/Readers.v, regenerated every run).  For EVERY byte string, running the translated program is the model's reader:
   it returns True exactly when header_read / entry_read succeeds, and then the attributes it has assigned (self.ver ...
   self.next_free, self.comp after the ascii/rstrip conversions; self.tbh ... self.line, self.data), the bytes consumed and the
   bytes left are the model's; it returns False exactly when the model's reader fails; and it never runs into a DataStream
   assertion or a statement outside the translated fragment. *)
Theorem C15_source_header_reader : forall d,
  match StreamProg.run Gen.Readers.prog_trace_header (StreamProg.init d) with
  | StreamProg.RRet true s => header_read d = Some (ReaderProgFacts.header_of s, StreamProg.s_rest s) /\ StreamProg.s_idx s = 32%Z
  | StreamProg.RRet false _ => header_read d = None
  | _ => False
  end.
Proof. exact ReaderProgFacts.header_prog_correct. Qed.
Print Assumptions C15_source_header_reader.
Theorem C15_source_entry_reader : forall d,
  match StreamProg.run Gen.Readers.prog_trace_entry (StreamProg.init d) with
  | StreamProg.RRet true s =>
      entry_read d = Some (ReaderProgFacts.entry_of s, Z.to_N (StreamProg.s_idx s), StreamProg.s_rest s)
  | StreamProg.RRet false _ => entry_read d = None
  | _ => False
  end.
Proof. exact ReaderProgFacts.entry_prog_correct. Qed.
Print Assumptions C15_source_entry_reader.
(* get_args as translated (a fresh DataStream over the entry data, `for i in range(MAX_ARGS)`: four bytes left -> append the
   word, else break): the collected words are the model's get_words, for every entry data *)
Theorem C15_source_args : forall data,
  match StreamProg.run Gen.Readers.prog_trace_args (StreamProg.init data) with
  | StreamProg.RFall s => ReaderProgFacts.args_of s = get_words MAX_ARGS data
  | _ => False
  end.
Proof. exact ReaderProgFacts.args_prog_correct. Qed.
Print Assumptions C15_source_args.
(* TraceBuffer.read: the translated condition of its loop over the entries is the model's `idx <? size` (read_entries), at every
   index and declared size; the loop body (a fresh entry, stop at the first that cannot be read, keep it) and the statements
   around the loop (read the header or return False; return True) are the published text *)
Theorem C15_source_buffer_loop :
  (forall size idx d mems,
     StreamProg.evc Gen.Readers.guard_tracebuf (StreamProg.mkS d (Z.of_N idx) [(L "self.header.size", Z.of_N size)] mems) = Some (idx <? size)) /\
  Gen.Readers.loop_tracebuf = Spec.PublishedCalloutLoop.loop_tracebuf /\
  Gen.Readers.around_tracebuf = Spec.PublishedCalloutLoop.around_tracebuf.
Proof. split; [exact ReaderProgFacts.tracebuf_guard|split; reflexivity]. Qed.
Print Assumptions C15_source_buffer_loop.
Theorem C15_source_streams : Gen.Readers.ok_readers = true /\ Gen.Readers.streams_big_unsigned = true.
Proof. split; reflexivity. Qed.
Print Assumptions C15_source_streams.

(* non-vacuity: a concrete well-formed buffer (exact, partial and unknown hash; text and binary entries;
   data lengths 8, 3, 0, 5) satisfies the hypotheses and is displayed as specified, by computation *)
Example C15_example :
  wf_bufferb example_buffer = true /\
  parse_trace example_table (encode_buffer example_buffer) = expected_lines example_table example_buffer /\
  length (expected_lines example_table example_buffer) = 14%nat /\
  nth 7 (expected_lines example_table example_buffer) [] = L " 1:01:01 0001    34 value 0x00AB and 7".
Proof. vm_compute. repeat split; reflexivity. Qed.
