(* C12 — --clean never deletes a PEL whose decoded output was not completely written. *)
From Coq Require Import List Bool.
From PV Require Gen.CleanGen Spec.PublishedSkeletons Proofs.CleanSkelFacts.
From PV Require Import Model.Clean Proofs.CleanFacts.
Import ListNotations.

(* for EVERY fault schedule (any subset of open / write / close / print / flush / remove failing) and every decode outcome:
   the input is removed only if it was decoded and its output was opened, written and closed without error *)
Theorem C12_json_clean_safe : forall f d clean,
  removed_in f (json_trace f d clean) = true -> d = DOk /\ clean = true /\ json_complete f (json_trace f d clean) = true.
Proof. exact json_clean_safe. Qed.
Print Assumptions C12_json_clean_safe.


(* ---- the tie to the source text ----
   Gen/CleanGen.v holds the effect skeletons of parseAndWriteOutput, parseAndPrintPELFile and the `if args.file:` block of main(),
   extracted on every run (harness/extract_clean.py): conditions on the decode result / --clean / --hex, the with-block of the
   output file, writes, prints, flushes, removals, returns, try / except, in source order and nesting; any other call that can
   touch a file or stream would appear as SUnknown.  They equal the published skeletons, which hold no SUnknown ... *)
Theorem C12_source_skeletons :
  Gen.CleanGen.ok_clean = true /\
  Gen.CleanGen.sk_json = Spec.PublishedSkeletons.sk_json /\
  Gen.CleanGen.sk_print_file = Spec.PublishedSkeletons.sk_print_file /\
  Gen.CleanGen.sk_main_file = Spec.PublishedSkeletons.sk_main_file /\
  (CleanSkelFacts.no_unknown Spec.PublishedSkeletons.sk_json && CleanSkelFacts.no_unknown Spec.PublishedSkeletons.sk_print_file &&
   CleanSkelFacts.no_unknown Spec.PublishedSkeletons.sk_main_file = true).
Proof. repeat split; reflexivity. Qed.
Print Assumptions C12_source_skeletons.

(* ... and the programs the theorems above are about are what these skeletons do, for every decode outcome, with and without
   --clean, document or hex display *)
Theorem C12_json_prog_is_source : forall d clean,
  json_prog d clean = fst (run_sk (CleanSkelFacts.is_ok d) clean false false Spec.PublishedSkeletons.sk_json).
Proof. exact CleanSkelFacts.json_prog_is_skeleton. Qed.
Print Assumptions C12_json_prog_is_source.

Theorem C12_file_prog_is_source : forall d clean hexm, file_prog d clean = CleanSkelFacts.file_steps d clean hexm.
Proof. exact CleanSkelFacts.file_prog_is_skeleton. Qed.
Print Assumptions C12_file_prog_is_source.

(* ... respectively printed and flushed, for --file --clean *)
Theorem C12_file_clean_safe : forall f d clean,
  removed_in f (file_trace f d clean) = true -> d = DOk /\ clean = true /\ file_complete f (file_trace f d clean) = true.
Proof. exact file_clean_safe. Qed.
Print Assumptions C12_file_clean_safe.

Theorem C12_not_vacuous :
  removed_in (fun _ => false) (json_trace (fun _ => false) DOk true) = true /\
  removed_in (fun _ => false) (file_trace (fun _ => false) DOk true) = true.
Proof. exact clean_removes_on_success. Qed.
Print Assumptions C12_not_vacuous.

(* the order of operations before the repair violates the property (kept as a regression witness) *)
Theorem C12_old_json_refuted : exists f, removed_in f (old_json_trace f DOk true) = true /\ json_complete f (old_json_trace f DOk true) = false.
Proof. exact old_json_refuted. Qed.
Print Assumptions C12_old_json_refuted.
Theorem C12_old_file_refuted : exists f d, d <> DOk /\ removed_in f (old_file_trace f d true) = true.
Proof. exact old_file_refuted. Qed.
Print Assumptions C12_old_file_refuted.
