(* C12 — --clean never deletes a PEL whose decoded output was not completely written. *)
From Coq Require Import List Bool.
From PV Require Import Model.Clean Proofs.CleanFacts.
Import ListNotations.

(* for EVERY fault schedule (any subset of open / write / close / print / flush / remove failing) and every decode outcome:
   the input is removed only if it was decoded and its output was opened, written and closed without error *)
Theorem C12_json_clean_safe : forall f d clean,
  removed_in f (json_trace f d clean) = true -> d = DOk /\ clean = true /\ json_complete f (json_trace f d clean) = true.
Proof. exact json_clean_safe. Qed.
Print Assumptions C12_json_clean_safe.

(* ... respectively printed and flushed, for --file --clean *)
Theorem C12_file_clean_safe : forall f d clean,
  removed_in f (file_trace f d clean) = true -> d = DOk /\ clean = true /\ file_complete f (file_trace f d clean) = true.
Proof. exact file_clean_safe. Qed.
Print Assumptions C12_file_clean_safe.

Theorem C12_not_vacuous :
  removed_in (fun _ => false) (json_trace (fun _ => false) DOk true) = true /\
  removed_in (fun _ => false) (file_trace (fun _ => false) DOk true) = true.
Proof. exact clean_removes_on_success. Qed.
Print Assumptions C12_not_vacuous.

(* the order of operations before the repair violates the property (kept as a regression witness) *)
Theorem C12_old_json_refuted : exists f, removed_in f (old_json_trace f DOk true) = true /\ json_complete f (old_json_trace f DOk true) = false.
Proof. exact old_json_refuted. Qed.
Print Assumptions C12_old_json_refuted.
Theorem C12_old_file_refuted : exists f d, d <> DOk /\ removed_in f (old_file_trace f d true) = true.
Proof. exact old_file_refuted. Qed.
Print Assumptions C12_old_file_refuted.
