(* The published walk and dispatch of the optional sections (peltool.py parsePEL / sectionFun): which class decodes which
   section id, and the loop that frames one section after the other.  Frozen; Props/C01.v proves the tables extracted from
   /repo on every run (Gen/Sections.v) equal to these. *)
From Coq Require Import List NArith.
From PV Require Import Base.Lit.
Import ListNotations.
Open Scope N_scope.

(* ids: 'PS' 'SS' | 'EH' | 'MT' | 'ED' | 'UD' | 'LP'; anything else is hex-dumped by Default *)
Definition section_dispatch : list (list N * list N) :=
  [([20563; 21331], L "SRC");
   ([17736], L "ExtendedUserHeader");
   ([19796], L "FailingMTMS");
   ([17732], L "ExtUserData");
   ([21828], L "UserData");
   ([19536], L "ImpactedPartition")].
Definition section_default : list N := L "Default".
(* for _ in range(2, ph.sectionCount): header; fresh dict; sectionFun(...); append *)
Definition section_loop : list (list N) :=
  [[102;111;114;32;95;32;105;110;32;114;97;110;103;101;40;50;44;32;112;104;46;115;101;99;116;105;111;110;67;111;117;110;116;41];
   [115;101;99;116;105;111;110;73;68;44;32;115;101;99;116;105;111;110;76;101;110;44;32;118;101;114;115;105;111;110;73;68;44;32;115;117;98;84;121;112;101;44;32;99;111;109;112;111;110;101;110;116;73;68;32;61;32;112;97;114;115;101;72;101;97;100;101;114;40;115;116;114;101;97;109;41];
   [115;101;99;116;105;111;110;95;106;115;111;110;32;61;32;79;114;100;101;114;101;100;68;105;99;116;40;41];
   [115;101;99;116;105;111;110;70;117;110;40;115;116;114;101;97;109;44;32;115;101;99;116;105;111;110;95;106;115;111;110;44;32;115;101;99;116;105;111;110;73;68;44;32;115;101;99;116;105;111;110;76;101;110;44;32;118;101;114;115;105;111;110;73;68;44;32;115;117;98;84;121;112;101;44;32;99;111;109;112;111;110;101;110;116;73;68;44;32;112;104;46;99;114;101;97;116;111;114;73;68;44;32;99;111;110;102;105;103;41];
   [115;101;99;116;105;111;110;95;106;115;111;110;115;46;97;112;112;101;110;100;40;115;101;99;116;105;111;110;95;106;115;111;110;41]].
