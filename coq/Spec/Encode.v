(* The PEL wire format: encode an abstract PEL to bytes, and what "well-formed" means.
   Written from the PEL layout (field order and widths), independently of the decoder. *)
From Coq Require Import List NArith Bool Arith.
From PV Require Import Base.Bytes Base.PelTypes.
Import ListNotations.
Open Scope N_scope.

Definition be := be_bytes.

Definition enc_header (id len : N) (h : shdr) : bytes :=
  be 2 id ++ be 2 len ++ be 1 (h_ver h) ++ be 1 (h_sub h) ++ be 2 (h_comp h).

Definition ID_PH : N := 20552. (* 'PH' *)   Definition ID_UH : N := 21832. (* 'UH' *)
Definition ID_PS : N := 20563. (* 'PS' *)   Definition ID_SS : N := 21331. (* 'SS' *)
Definition ID_EH : N := 17736. (* 'EH' *)   Definition ID_MT : N := 19796. (* 'MT' *)
Definition ID_LP : N := 19536. (* 'LP' *)   Definition ID_UD : N := 21828. (* 'UD' *)
Definition ID_ED : N := 17732. (* 'ED' *)

Definition enc_ph (p : ph_t) : bytes :=
  enc_header ID_PH (ph_len p) (ph_hdr p) ++
  ph_create p ++ ph_commit p ++ be 1 (ph_creator p) ++ be 1 (ph_res0 p) ++ be 1 (ph_res1 p) ++ be 1 (ph_count p) ++
  be 4 (ph_obmc p) ++ be 8 (ph_cver p) ++ be 4 (ph_plid p) ++ be 4 (ph_eid p).

Definition enc_uh (u : uh_t) : bytes :=
  enc_header ID_UH (uh_len u) (uh_hdr u) ++
  be 1 (uh_subsys u) ++ be 1 (uh_scope u) ++ be 1 (uh_sev u) ++ be 1 (uh_etype u) ++ be 4 (uh_res4 u) ++
  be 1 (uh_domain u) ++ be 1 (uh_vector u) ++ be 2 (uh_flags u) ++ be 4 (uh_states u).

Definition enc_fru (f : fru_t) : bytes :=
  be 2 18756 ++ be 1 (f_size f) ++ be 1 (f_flags f) ++ f_pn f ++ f_ccin f ++ f_sn f.
Definition enc_pce (p : pce_t) : bytes :=
  be 2 20549 ++ be 1 (p_size p) ++ be 1 (p_flags p) ++ p_mtm p ++ p_sn p ++ p_name p.
Definition enc_mru (m : mru_t) : bytes :=
  be 2 19794 ++ be 1 (m_size m) ++ be 1 (m_flags m) ++ be 4 (m_res m) ++
  flat_map (fun pi => be 4 (fst pi) ++ be 4 (snd pi)) (m_list m).
Definition enc_sub (s : sub_t) : bytes :=
  match s with SubFru f => enc_fru f | SubPce p => enc_pce p | SubMru m => enc_mru m end.

Definition enc_callout (c : callout_t) : bytes :=
  be 1 (c_size c) ++ be 1 (c_flags c) ++ be 1 (c_prio c) ++ be 1 (N.of_nat (length (c_loc c))) ++ c_loc c ++
  flat_map enc_sub (c_subs c).

Definition enc_callouts (cs : callouts_t) : bytes :=
  be 1 (cs_id cs) ++ be 1 (cs_flags cs) ++ be 2 (cs_wlen cs) ++ flat_map enc_callout (cs_list cs).

Definition enc_src (s : src_t) : bytes :=
  be 1 (s_version s) ++ be 1 (s_flags s) ++ be 1 (s_res1 s) ++ be 1 (s_wcount s) ++ be 2 (s_res2 s) ++ be 2 (s_size s) ++
  flat_map (be 4) (s_words s) ++ s_ascii s ++
  match s_callouts s with Some cs => enc_callouts cs | None => [] end.

Definition enc_eh (e : eh_t) : bytes :=
  e_mtm e ++ e_sn e ++ e_fw e ++ e_subfw e ++ be 4 (e_res4 e) ++ e_reftime e ++
  be 1 (e_r1 e) ++ be 1 (e_r2 e) ++ be 1 (e_r3 e) ++ be 1 (e_symlen e) ++ e_sym e.

Definition enc_mt (t : mt_t) : bytes := t_mtm t ++ t_sn t.

Definition enc_lp (l : lp_t) : bytes :=
  be 2 (l_part l) ++ be 1 (l_namelen l) ++ be 1 (l_count l) ++ be 4 (l_logid l) ++ l_name l ++
  flat_map (be 2) (l_targets l) ++ match l_pad l with Some x => be 2 x | None => [] end.

Definition enc_body (b : body_t) : bytes :=
  match b with
  | BSrc s => enc_src s
  | BEh e => enc_eh e
  | BMt t => enc_mt t
  | BLp l => enc_lp l
  | BUd d => d
  | BEd c r1 r2 d => be 1 c ++ be 1 r1 ++ be 2 r2 ++ d
  | BOther d => d
  end.

Definition enc_section (s : section_t) : bytes :=
  enc_header (sec_id s) (sec_len s) (sec_hdr s) ++ enc_body (sec_body s).

Definition encode (p : pel_t) : bytes :=
  enc_ph (p_ph p) ++ enc_uh (p_uh p) ++ flat_map enc_section (p_secs p).

(* ---------------- well-formedness ---------------- *)
Definition lt8 (v : N) := v < 256.  Definition lt16 (v : N) := v < 65536.
Definition lt32 (v : N) := v < 4294967296.  Definition lt64 (v : N) := v < 18446744073709551616.
Definition field (n : nat) (b : bytes) := length b = n /\ Forall (fun x => x < 256) b.
Definition ascii_field (n : nat) (b : bytes) := length b = n /\ Forall (fun x => x < 128) b.

Definition wf_hdr (h : shdr) := lt8 (h_ver h) /\ lt8 (h_sub h) /\ lt16 (h_comp h).

Definition wf_ph (p : ph_t) (nsecs : nat) :=
  wf_hdr (ph_hdr p) /\ lt16 (ph_len p) /\ field 8 (ph_create p) /\ field 8 (ph_commit p) /\
  ph_creator p < 128 /\ lt8 (ph_res0 p) /\ lt8 (ph_res1 p) /\
  ph_count p = N.of_nat (2 + nsecs) /\ (2 + nsecs <= 255)%nat /\
  lt32 (ph_obmc p) /\ lt64 (ph_cver p) /\ lt32 (ph_plid p) /\ lt32 (ph_eid p).

Definition wf_uh (u : uh_t) :=
  wf_hdr (uh_hdr u) /\ lt16 (uh_len u) /\ lt8 (uh_subsys u) /\ lt8 (uh_scope u) /\ lt8 (uh_sev u) /\ lt8 (uh_etype u) /\
  lt32 (uh_res4 u) /\ lt8 (uh_domain u) /\ lt8 (uh_vector u) /\ lt16 (uh_flags u) /\ lt32 (uh_states u).

Definition flag (fl mask : N) : bool := negb (N.land fl mask =? 0).

Definition wf_fru (f : fru_t) :=
  lt8 (f_size f) /\ lt8 (f_flags f) /\
  ascii_field (if flag (f_flags f) 8 || flag (f_flags f) 2 then 8 else 0) (f_pn f) /\
  ascii_field (if flag (f_flags f) 4 then 4 else 0) (f_ccin f) /\
  ascii_field (if flag (f_flags f) 1 then 12 else 0) (f_sn f).
Definition wf_pce (p : pce_t) :=
  lt8 (p_size p) /\ lt8 (p_flags p) /\ ascii_field 8 (p_mtm p) /\ ascii_field 12 (p_sn p) /\
  (1 <= length (p_name p))%nat /\ Forall (fun x => x < 128) (p_name p) /\ p_size p = 24 + N.of_nat (length (p_name p)).
Definition wf_mru (m : mru_t) :=
  lt8 (m_size m) /\ lt8 (m_flags m) /\ lt32 (m_res m) /\ length (m_list m) = N.to_nat (N.land (m_flags m) 15) /\
  Forall (fun pi => lt32 (fst pi) /\ lt32 (snd pi)) (m_list m) /\ m_size m = 8 + 8 * N.of_nat (length (m_list m)).
Definition wf_sub (s : sub_t) :=
  match s with SubFru f => wf_fru f | SubPce p => wf_pce p | SubMru m => wf_mru m end.

Definition sub_size (s : sub_t) : N :=
  match s with
  | SubFru f => 4 + N.of_nat (length (f_pn f)) + N.of_nat (length (f_ccin f)) + N.of_nat (length (f_sn f))
  | SubPce p => p_size p
  | SubMru m => m_size m
  end.
Definition subs_size (l : list sub_t) : N := fold_right (fun s a => sub_size s + a) 0 l.

(* at most one substructure of each kind, in the order FRU identity, PCE identity, MRU *)
Definition subs_shape (l : list sub_t) : Prop :=
  match l with
  | [] | [SubFru _] | [SubPce _] | [SubMru _]
  | [SubFru _; SubPce _] | [SubFru _; SubMru _] | [SubPce _; SubMru _]
  | [SubFru _; SubPce _; SubMru _] => True
  | _ => False
  end.

Definition wf_callout (c : callout_t) :=
  lt8 (c_flags c) /\ lt8 (c_prio c) /\ (length (c_loc c) <= 255)%nat /\ Forall (fun x => x < 128) (c_loc c) /\
  Forall wf_sub (c_subs c) /\ subs_shape (c_subs c) /\
  c_size c = 4 + N.of_nat (length (c_loc c)) + subs_size (c_subs c) /\ lt8 (c_size c).

Definition callout_size (c : callout_t) : N := c_size c.
Definition callouts_size (l : list callout_t) : N := fold_right (fun c a => callout_size c + a) 0 l.

Definition wf_callouts (cs : callouts_t) :=
  lt8 (cs_id cs) /\ lt8 (cs_flags cs) /\ lt16 (cs_wlen cs) /\ Forall wf_callout (cs_list cs) /\
  cs_wlen cs * 4 = 4 + callouts_size (cs_list cs).

Definition wf_src (s : src_t) :=
  lt8 (s_version s) /\ lt8 (s_flags s) /\ lt8 (s_res1 s) /\ 1 <= s_wcount s <= 9 /\ lt16 (s_res2 s) /\ lt16 (s_size s) /\
  length (s_words s) = 8%nat /\ Forall lt32 (s_words s) /\ ascii_field 32 (s_ascii s) /\
  match s_callouts s with
  | Some cs => flag (s_flags s) 1 = true /\ wf_callouts cs
  | None => flag (s_flags s) 1 = false
  end.

Definition wf_eh (e : eh_t) :=
  ascii_field 8 (e_mtm e) /\ ascii_field 12 (e_sn e) /\ ascii_field 16 (e_fw e) /\ ascii_field 16 (e_subfw e) /\
  lt32 (e_res4 e) /\ field 8 (e_reftime e) /\ lt8 (e_r1 e) /\ lt8 (e_r2 e) /\ lt8 (e_r3 e) /\
  lt8 (e_symlen e) /\ ascii_field (N.to_nat (e_symlen e)) (e_sym e).

Definition wf_mt (t : mt_t) := ascii_field 8 (t_mtm t) /\ ascii_field 12 (t_sn t).

Definition wf_lp (l : lp_t) :=
  lt16 (l_part l) /\ lt8 (l_namelen l) /\ lt8 (l_count l) /\ lt32 (l_logid l) /\
  ascii_field (N.to_nat (l_namelen l)) (l_name l) /\
  length (l_targets l) = N.to_nat (l_count l) /\ Forall lt16 (l_targets l) /\
  match l_pad l with Some x => N.odd (l_count l) = true /\ lt16 x | None => N.odd (l_count l) = false end.

Definition payload_ok (d : bytes) (maxlen : N) := 1 <= N.of_nat (length d) <= maxlen /\ Forall (fun x => x < 256) d.

(* which body goes with which section id, and the declared length *)
Definition wf_section (s : section_t) :=
  wf_hdr (sec_hdr s) /\ lt16 (sec_id s) /\ sec_id s <> ID_PH /\ sec_id s <> ID_UH /\
  sec_len s = 8 + N.of_nat (length (enc_body (sec_body s))) /\ lt16 (sec_len s) /\
  match sec_body s with
  | BSrc x => (sec_id s = ID_PS \/ sec_id s = ID_SS) /\ wf_src x
  | BEh x => sec_id s = ID_EH /\ wf_eh x
  | BMt x => sec_id s = ID_MT /\ wf_mt x
  | BLp x => sec_id s = ID_LP /\ wf_lp x
  | BUd d => sec_id s = ID_UD /\ payload_ok d 65527
  | BEd c r1 r2 d => sec_id s = ID_ED /\ lt8 c /\ lt8 r1 /\ lt16 r2 /\ payload_ok d 65523
  | BOther d => ~ In (sec_id s) [ID_PS; ID_SS; ID_EH; ID_MT; ID_LP; ID_UD; ID_ED] /\ payload_ok d 65527
  end.

Definition wf_pel (p : pel_t) :=
  wf_ph (p_ph p) (length (p_secs p)) /\ wf_uh (p_uh p) /\ Forall wf_section (p_secs p).
