(* Generators: total functions from a choice sequence (random numbers supplied by the harness) to
   abstract values.  Well-formed by construction; deliberately over-weighting the adversarial shapes the
   properties name.  No proofs depend on this file. *)
From Coq Require Import List NArith Bool Arith.
From PV Require Import Base.Bytes Base.Lit Base.PelTypes Spec.Encode.
Import ListNotations.
Open Scope N_scope.

Definition gen (A : Type) := list N -> A * list N.
Definition gret {A} (a : A) : gen A := fun s => (a, s).
Definition gbind {A B} (g : gen A) (f : A -> gen B) : gen B := fun s => let '(a, s') := g s in f a s'.
Notation "x <~ g ;; k" := (gbind g (fun x => k)) (at level 61, g at next level, right associativity).

Definition draw (bound : N) : gen N :=
  fun s => match s with [] => (0, []) | c :: t => ((if bound =? 0 then 0 else c mod bound), t) end.
Definition draw_bool : gen bool := x <~ draw 2 ;; gret (x =? 1).

Fixpoint grepeat {A} (n : nat) (g : gen A) : gen (list A) :=
  match n with O => gret [] | S k => a <~ g ;; t <~ grepeat k g ;; gret (a :: t) end.

Definition pick {A} (dflt : A) (l : list A) : gen A :=
  i <~ draw (N.of_nat (length l)) ;; gret (nth (N.to_nat i) l dflt).

(* a value below 2^bits, biased towards boundaries *)
Definition draw_val (bits : N) : gen N :=
  k <~ draw 8 ;;
  if k =? 0 then gret 0
  else if k =? 1 then gret (2 ^ bits - 1)
  else if k =? 2 then (x <~ draw 256 ;; gret (x mod 2 ^ bits))
  else if k =? 3 then gret (2 ^ (bits - 1))
  else (hi <~ draw (2 ^ 32) ;; lo <~ draw (2 ^ 32) ;; gret ((hi * 2 ^ 32 + lo) mod 2 ^ bits)).

Definition draw_byte : gen N :=
  k <~ draw 6 ;;
  if k =? 0 then pick 0 [0; 31; 32; 126; 127; 255; 10; 34; 58; 92]
  else draw 256.
Definition draw_bytes (n : nat) : gen bytes := grepeat n draw_byte.

(* printable ASCII text of length <= width, NUL padded to width; sometimes full width, sometimes empty,
   sometimes with characters that matter to the pretty-printer *)
Definition draw_char : gen N :=
  k <~ draw 8 ;;
  if k =? 0 then pick 65 [34; 58; 92; 123; 125; 91; 44; 32; 39; 47]
  else (x <~ draw 94 ;; gret (33 + x)).
Definition draw_text_field (width : nat) : gen bytes :=
  k <~ draw 6 ;;
  len <~ (if k =? 0 then gret 0 else if k =? 1 then gret (N.of_nat width) else draw (N.of_nat width + 1)) ;;
  t <~ grepeat (N.to_nat len) draw_char ;;
  gret (t ++ repeat 0 (width - N.to_nat len)).

Definition draw_hdr : gen shdr :=
  v <~ draw_val 8 ;; s <~ draw_val 8 ;; c <~ draw_val 16 ;; gret {| h_ver := v; h_sub := s; h_comp := c |}.

Definition draw_time : gen bytes :=
  k <~ draw 4 ;;
  if k =? 0 then draw_bytes 8
  else grepeat 8 (hi <~ draw 10 ;; lo <~ draw 10 ;; gret (hi * 16 + lo)).

Definition creators : list N := [66; 67; 72; 75; 76; 77; 79; 80; 83; 84].   (* B C H K L M O P S T *)
Definition draw_creator : gen N :=
  k <~ draw 5 ;;
  if k =? 0 then draw 128 else if k =? 1 then gret 72 (* PHYP *) else if k =? 2 then gret 79 (* BMC *) else pick 79 creators.

Definition draw_ph (nsecs : nat) : gen ph_t :=
  h <~ draw_hdr ;; cr <~ draw_time ;; cm <~ draw_time ;; c <~ draw_creator ;; r0 <~ draw_val 8 ;; r1 <~ draw_val 8 ;;
  ob <~ draw_val 32 ;; cv <~ draw_val 64 ;;
  small <~ draw 3 ;;
  pl <~ (if small =? 0 then draw 65536 else draw_val 32) ;;
  ei <~ (if small =? 1 then draw 65536 else draw_val 32) ;;
  gret {| ph_hdr := h; ph_len := 48; ph_create := cr; ph_commit := cm; ph_creator := c; ph_res0 := r0; ph_res1 := r1;
          ph_count := N.of_nat (2 + nsecs); ph_obmc := ob; ph_cver := cv; ph_plid := pl; ph_eid := ei |}.

Definition sev_values : list N := [0; 16; 32; 33; 64; 81; 80; 96; 113; 1; 5; 15; 255].
Definition draw_uh : gen uh_t :=
  h <~ draw_hdr ;; a <~ draw_val 8 ;; b <~ draw 8 ;;
  k <~ draw 3 ;; c <~ (if k =? 0 then draw 256 else pick 0 sev_values) ;;
  d <~ pick 0 [0; 1; 2; 8; 48; 3; 255] ;; r <~ draw_val 32 ;; e <~ draw_val 8 ;; f <~ draw_val 8 ;;
  g <~ draw_val 16 ;; st <~ (x <~ draw 6 ;; y <~ draw 6 ;; z <~ draw 65536 ;; gret (z * 65536 + y * 256 + x)) ;;
  gret {| uh_hdr := h; uh_len := 24; uh_subsys := a; uh_scope := b; uh_sev := c; uh_etype := d; uh_res4 := r;
          uh_domain := e; uh_vector := f; uh_flags := g; uh_states := st |}.

(* ---- callouts ---- *)
Definition draw_fru : gen fru_t :=
  nib <~ pick 16 [16; 32; 48; 64; 144; 160; 176; 192; 224; 0; 80; 240] ;; low <~ draw 16 ;;
  let fl := nib + low in
  pn <~ (if flag fl 8 || flag fl 2 then
           (k <~ draw 3 ;; if k =? 0 then (i <~ draw 9 ;; gret (L "BMC000" ++ [48 + i] ++ [0])) else draw_text_field 8)
         else gret []) ;;
  cc <~ (if flag fl 4 then draw_text_field 4 else gret []) ;;
  sn <~ (if flag fl 1 then draw_text_field 12 else gret []) ;;
  sz <~ draw_val 8 ;;
  gret {| f_size := sz; f_flags := fl; f_pn := pn; f_ccin := cc; f_sn := sn |}.

Definition draw_pce : gen pce_t :=
  fl <~ draw_val 8 ;; mt <~ draw_text_field 8 ;; sn <~ draw_text_field 12 ;;
  n <~ draw 20 ;; nm <~ draw_text_field (S (N.to_nat n)) ;;
  gret {| p_size := 24 + N.of_nat (length nm); p_flags := fl; p_mtm := mt; p_sn := sn; p_name := nm |}.

Definition draw_mru : gen mru_t :=
  hi <~ draw 16 ;; k <~ draw 4 ;; cnt <~ (if k =? 0 then pick 0 [0; 15] else draw 16) ;;
  res <~ draw_val 32 ;;
  l <~ grepeat (N.to_nat cnt) (p <~ draw_val 32 ;; i <~ draw_val 32 ;; gret (p, i)) ;;
  gret {| m_size := 8 + 8 * cnt; m_flags := hi * 16 + cnt; m_res := res; m_list := l |}.

(* location code: sometimes starting with the two characters of a substructure id *)
Definition draw_loc : gen bytes :=
  k <~ draw 6 ;;
  if k =? 0 then gret []
  else if k =? 1 then (p <~ pick (L "ID") [L "ID"; L "PE"; L "MR"] ;; t <~ draw_text_field 6 ;; gret (p ++ t))
  else if k =? 2 then draw_text_field 80
  else (n <~ draw 41 ;; draw_text_field (N.to_nat n)).

Definition draw_callout : gen callout_t :=
  fl <~ draw_val 8 ;; pr <~ pick 72 [72; 77; 65; 66; 67; 76; 0; 255] ;; loc <~ draw_loc ;;
  wf <~ draw 8 ;; wp <~ draw 4 ;; wm <~ draw 4 ;;
  f <~ draw_fru ;; p <~ draw_pce ;; m <~ draw_mru ;;
  let subs := (if wf =? 0 then [] else [SubFru f]) ++ (if wp =? 0 then [SubPce p] else []) ++ (if wm =? 0 then [SubMru m] else []) in
  let size := 4 + N.of_nat (length loc) + subs_size subs in
  (* keep the size byte below 256: drop the PCE name-heavy part if needed *)
  let subs := if size <? 253 then subs else (if wf =? 0 then [] else [SubFru f]) in
  let loc := if 4 + N.of_nat (length loc) + subs_size subs <? 253 then loc else [] in
  gret {| c_size := 4 + N.of_nat (length loc) + subs_size subs; c_flags := fl; c_prio := pr; c_loc := loc; c_subs := subs |}.

Definition draw_callouts : gen callouts_t :=
  id <~ draw_val 8 ;; fl <~ draw_val 8 ;; k <~ draw 5 ;;
  n <~ (if k =? 0 then gret 0 else if k =? 1 then draw 12 else draw 4) ;;
  l0 <~ grepeat (N.to_nat n) draw_callout ;;
  (* the word length must describe the flattened size: NUL-pad the last location code to a multiple of 4 *)
  let r := (4 + callouts_size l0) mod 4 in
  let l := match rev l0 with
           | [] => []
           | c :: t => let padn := N.to_nat ((4 - r) mod 4) in
                       rev ({| c_size := c_size c + N.of_nat padn; c_flags := c_flags c; c_prio := c_prio c;
                               c_loc := c_loc c ++ repeat 0 padn; c_subs := c_subs c |} :: t)
           end in
  let total := 4 + callouts_size l in
  gret {| cs_id := id; cs_flags := fl; cs_wlen := total / 4; cs_list := l |}.

Definition src_types : list text := [L "BD"; L "11"; L "BC"; L "B7"; L "  "].
Definition draw_ascii32 : gen bytes :=
  ty <~ pick (L "BD") src_types ;;
  k <~ draw 4 ;;
  mid <~ (if k =? 0 then gret (L "8DE5") else if k =? 1 then gret (L "00e5") else grepeat 4 (x <~ draw 16 ;; gret (hexdigU x))) ;;
  r <~ grepeat 2 (x <~ draw 16 ;; gret (hexdigU x)) ;;
  ten <~ draw 3 ;;
  let code := ty ++ mid ++ (if ten =? 0 then L "10" else r) in
  padk <~ draw 3 ;;
  gret (code ++ repeat (if padk =? 0 then 0 else 32) 24).

Definition draw_src : gen src_t :=
  v <~ draw_val 8 ;; flhi <~ draw 128 ;; withco <~ draw 3 ;; r1 <~ draw_val 8 ;;
  k <~ draw 4 ;; wc <~ (if k =? 0 then pick 9 [1; 9; 2] else (x <~ draw 9 ;; gret (1 + x))) ;;
  r2 <~ draw_val 16 ;; sz <~ draw_val 16 ;;
  ws <~ grepeat 8 (draw_val 32) ;; asc <~ draw_ascii32 ;;
  cs <~ draw_callouts ;;
  (* callout lists whose total is not a multiple of four cannot be described by the word length: drop them *)
  let ok := (4 + callouts_size (cs_list cs)) mod 4 =? 0 in
  let has_co := negb (withco =? 0) && ok in
  gret {| s_version := v; s_flags := flhi * 2 + (if has_co then 1 else 0); s_res1 := r1; s_wcount := wc; s_res2 := r2; s_size := sz;
          s_words := ws; s_ascii := asc; s_callouts := if has_co then Some cs else None |}.

Definition draw_eh : gen eh_t :=
  a <~ draw_text_field 8 ;; b <~ draw_text_field 12 ;; c <~ draw_text_field 16 ;; d <~ draw_text_field 16 ;;
  r <~ draw_val 32 ;; t <~ draw_time ;; r1 <~ draw_val 8 ;; r2 <~ draw_val 8 ;; r3 <~ draw_val 8 ;;
  k <~ draw 5 ;; sl <~ (if k =? 0 then gret 0 else if k =? 1 then gret 255 else draw 81) ;;
  sym <~ draw_text_field (N.to_nat sl) ;;
  gret {| e_mtm := a; e_sn := b; e_fw := c; e_subfw := d; e_res4 := r; e_reftime := t; e_r1 := r1; e_r2 := r2; e_r3 := r3;
          e_symlen := sl; e_sym := sym |}.

Definition draw_mt : gen mt_t := a <~ draw_text_field 8 ;; b <~ draw_text_field 12 ;; gret {| t_mtm := a; t_sn := b |}.

Definition draw_lp : gen lp_t :=
  p <~ draw_val 16 ;; k <~ draw 5 ;;
  nl <~ (if k =? 0 then gret 0 else if k =? 1 then gret 255 else draw 40) ;;
  k2 <~ draw 6 ;;
  cnt <~ (if k2 =? 0 then gret 0 else if k2 =? 1 then gret 255 else if k2 =? 2 then gret 1 else draw 9) ;;
  lid <~ draw_val 32 ;; nm <~ draw_text_field (N.to_nat nl) ;;
  ts <~ grepeat (N.to_nat cnt) (draw_val 16) ;; pad <~ draw_val 16 ;;
  gret {| l_part := p; l_namelen := nl; l_count := cnt; l_logid := lid; l_name := nm; l_targets := ts;
          l_pad := if N.odd cnt then Some pad else None |}.

Definition draw_payload (maxlen : N) : gen bytes :=
  k <~ draw 8 ;;
  n <~ (if k =? 0 then gret 1 else if k =? 1 then pick 16 [15; 16; 17; 31; 32; 33] else if k =? 2 then draw maxlen else draw 64) ;;
  let n := if n =? 0 then 1 else n in
  style <~ draw 4 ;;
  if style =? 0 then (b <~ draw_byte ;; gret (repeat b (N.to_nat n)))
  else if style =? 1 then (b <~ draw 256 ;; gret (map (fun i => (b + N.of_nat i * 7) mod 256) (seq 0 (N.to_nat n))))
  else draw_bytes (N.to_nat n).

Definition hexdump_only_ids : list N :=
  [17480 (*DH*); 21335 (*SW*); 19538 (*LR*); 18509 (*HM*); 17744 (*EP*); 18757 (*IE*); 19785 (*MI*); 17224 (*CH*); 17737 (*EI*);
   18756 (*ID*); 20549 (*PE*); 19794 (*MR*)].

Definition mk_section (id : N) (h : shdr) (b : body_t) : section_t :=
  {| sec_id := id; sec_len := 8 + N.of_nat (length (enc_body b)); sec_hdr := h; sec_body := b |}.

(* components that have no parser module here; 0x2000 with creator BMC selects the built-in formats *)
Definition draw_ud_hdr : gen shdr :=
  v <~ draw_val 8 ;; k <~ draw 4 ;; s <~ (if k =? 0 then pick 2 [2; 4; 0; 5] else draw_val 8) ;;
  c <~ pick 4660 [4660; 8192; 1; 65535; 43981] ;;
  gret {| h_ver := v; h_sub := s; h_comp := c |}.

(* a section that may be read in a built-in text format (component 0x2000, sub-type JSON or text) carries UTF-8 text *)
Definition textual (h : shdr) (d : bytes) : bytes :=
  if (h_comp h =? 8192) && ((h_sub h =? 1) || (h_sub h =? 3)) then map (fun b => b mod 128) d else d.

Definition draw_section (maxpayload : N) : gen section_t :=
  k <~ draw 16 ;; h <~ draw_hdr ;;
  if k <? 3 then (s <~ draw_src ;; p <~ draw 4 ;; gret (mk_section (if p =? 0 then ID_SS else ID_PS) h (BSrc s)))
  else if k =? 3 then (e <~ draw_eh ;; gret (mk_section ID_EH h (BEh e)))
  else if k =? 4 then (t <~ draw_mt ;; gret (mk_section ID_MT h (BMt t)))
  else if k <? 7 then (l <~ draw_lp ;; gret (mk_section ID_LP h (BLp l)))
  else if k <? 9 then (uh <~ draw_ud_hdr ;; d <~ draw_payload maxpayload ;; gret (mk_section ID_UD uh (BUd (textual uh d))))
  else if k <? 11 then (uh <~ draw_ud_hdr ;; c <~ draw_creator ;; r1 <~ draw_val 8 ;; r2 <~ draw_val 16 ;; d <~ draw_payload maxpayload ;;
                        gret (mk_section ID_ED uh (BEd c r1 r2 (textual uh d))))
  else if k <? 14 then (id <~ pick 17480 hexdump_only_ids ;; d <~ draw_payload maxpayload ;; gret (mk_section id h (BOther d)))
  else (a <~ draw 256 ;; b <~ draw 256 ;; d <~ draw_payload maxpayload ;;
        let id := a * 256 + b in
        let id := if existsb (N.eqb id) [ID_PH; ID_UH; ID_PS; ID_SS; ID_EH; ID_MT; ID_LP; ID_UD; ID_ED] then 23130 (* 'ZZ' *) else id in
        gret (mk_section id h (BOther d))).

Definition draw_pel (maxsecs maxpayload : N) : gen pel_t :=
  k <~ draw 6 ;;
  n <~ (if k =? 0 then gret 0 else if k =? 1 then gret 1 else draw (maxsecs + 1)) ;;
  secs <~ grepeat (N.to_nat n) (draw_section maxpayload) ;;
  ph <~ draw_ph (length secs) ;; uh <~ draw_uh ;;
  gret {| p_ph := ph; p_uh := uh; p_secs := secs |}.

Definition build_pel (maxsecs maxpayload : N) (cs : list N) : pel_t := fst (draw_pel maxsecs maxpayload cs).
