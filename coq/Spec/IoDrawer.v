(* Specification-side definitions for the I/O-drawer properties C16 (history logs) and C14 (ILOG),
   written from the property texts in properties.jsonl, not from the code.  The models in
   Model/Hlog.v and Model/Ilog.v are proved equal to these in Proofs/HlogFacts.v / IlogFacts.v. *)
From Coq Require Import List NArith Bool Arith.
From PV Require Import Base.Bytes Base.Lit Base.PyFmt.
Import ListNotations.
Open Scope N_scope.

(* big-endian value as the positional sum  b0*256^(n-1) + ... + b(n-1) *)
Fixpoint be_value (l : bytes) : N :=
  match l with
  | [] => 0
  | b :: t => b * 256 ^ N.of_nat (length t) + be_value t
  end.

Fixpoint take_while {A} (p : A -> bool) (l : list A) : list A :=
  match l with
  | [] => []
  | x :: t => if p x then x :: take_while p t else []
  end.

(* ------------------------------------------------------------------------------------------- *)
(* C16.  "for the fields declared in the drawer's header file taken in order with their declared
   widths ..., one line per field whose big-endian value is non-zero, showing the field name and the
   value zero-padded to the field width.  Fields are consumed contiguously from offset 0, and listing
   stops at the first field that does not fit in the data." *)

(* contiguous from [start]: field i begins where field i-1 ended *)
Fixpoint field_offsets (widths : list nat) (start : nat) : list nat :=
  match widths with
  | [] => []
  | w :: t => start :: field_offsets t (start + w)
  end.

(* a field placed at an absolute offset of the record *)
Definition placed := ((text * nat) * nat)%type.           (* ((name, width), offset) *)
Definition place (fields : list (text * nat)) : list placed :=
  combine fields (field_offsets (map snd fields) 0).

Definition fits (len : nat) (p : placed) : bool :=
  let '((_, w), off) := p in Nat.leb (off + w) len.

(* bytes [off, off+w) of the record *)
Definition slice (d : bytes) (off w : nat) : bytes := firstn w (skipn off d).

(* (name, width, value) of every field up to, not including, the first that does not fit *)
Definition take_fitting (fields : list (text * nat)) (d : bytes) : list (text * nat * N) :=
  map (fun p : placed => let '((name, w), off) := p in (name, w, be_value (slice d off w)))
      (take_while (fits (length d)) (place fields)).

(* name, ": 0x", exactly 2*width upper-case hex digits *)
Definition field_line (f : text * nat * N) : text :=
  let '(name, w, v) := f in name ++ L ": 0x" ++ hex_fixed hexdigU (2 * w) v.

Definition nonzero_lines (l : list (text * nat * N)) : list text :=
  map field_line (filter (fun f => negb (snd f =? 0)) l).

(* ------------------------------------------------------------------------------------------- *)
(* C14.  "one line per 8-byte entry that is not all zero, in order, showing the entry's timestamp
   (H:MM:SS, or dashes for 0xFFFF), its sequence number and its PTE exactly as stored; a trailing
   partial entry is ignored.  The description is that of the first table entry, in header-file order,
   whose wildcard pattern matches the PTE either as is or - for an error PTE with the reported flag -
   with that flag cleared, with its parameters taken from the designated PTE bytes; 'Undefined' if none
   matches, and the suffix ' - PEL entry created' exactly when the PTE is a reported error." *)
(* consecutive complete 8-byte entries; whatever is left over (fewer than 8 bytes) is ignored *)
Fixpoint entries8 (d : bytes) : list bytes :=
  match d with
  | b0 :: b1 :: b2 :: b3 :: b4 :: b5 :: b6 :: b7 :: rest => [b0; b1; b2; b3; b4; b5; b6; b7] :: entries8 rest
  | _ => []
  end.

(* not all zero *)
Definition nonzero (e : bytes) : bool := negb (forallb (fun b => b =? 0) e).

(* "exactly as stored": two upper-case hex digits per stored byte *)
Definition stored_hex (bs : bytes) : text := flat_map (fun b => [hexdigU (b / 16); hexdigU (b mod 16)]) bs.

(* H:MM:SS of a second counter, hours space-padded to two columns; dashes for 0xFFFF *)
Definition two_digits (n : N) : text := [48 + n / 10; 48 + n mod 10].
Definition ts_text (t : N) : text :=
  if t =? 0xFFFF then L "--------"
  else (if t / 3600 <? 10 then [32; 48 + t / 3600] else two_digits (t / 3600))
       ++ [58] ++ two_digits ((t / 60) mod 60) ++ [58] ++ two_digits (t mod 60).

(* error PTE with the reported flag *)
Definition reported_error (pte : N) : bool :=
  (N.land pte 0xF0000000 =? 0xE0000000) && negb (N.land pte 0x00040000 =? 0).
(* the same PTE with that flag cleared (only used when the flag is set) *)
Definition clear_reported (pte : N) : N := pte - 0x00040000.

(* wildcard patterns: one pattern character per hex digit, '*' for any digit, letters in either case *)
Definition wild_char (p h : N) : Prop := p = 42 \/ upper_c p = upper_c h.
Definition wild (pat digits : text) : Prop := Forall2 wild_char pat digits.
Definition hex8 (pte : N) : text := hex_fixed hexdigU 8 pte.
Definition hits (pat : text) (pte : N) : Prop :=
  wild pat (hex8 pte) \/ (reported_error pte = true /\ wild pat (hex8 (clear_reported pte))).

(* parameter p (1..4) designates the p-th of the four PTE bytes; other parameter numbers are dropped *)
Definition param_values (params : list N) (pte_bytes : bytes) : list N :=
  map (fun p => nth (N.to_nat p - 1) pte_bytes 0) (filter (fun p => (1 <=? p) && (p <=? 4)) params).

(* the table message with its parameters filled in; the raw format when Python's % raises;
   None when the format is outside the fragment Base/PyFmt.v covers *)
Definition message (fmt : text) (values : list N) : option text :=
  match pyfmt fmt values with FOk m => Some m | FError => Some fmt | FUnsupported => None end.

Definition created_suffix : text := L " - PEL entry created".
