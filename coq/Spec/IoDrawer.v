(* Specification-side definitions for the I/O-drawer properties C16 (history logs) and C14 (ILOG),
   written from the property texts in properties.jsonl, not from the code.  The models in
   Model/Hlog.v and Model/Ilog.v are proved equal to these in Proofs/HlogFacts.v / IlogFacts.v. *)
From Coq Require Import List NArith Bool Arith.
From PV Require Import Base.Bytes Base.Lit.
Import ListNotations.
Open Scope N_scope.

(* big-endian value as the positional sum  b0*256^(n-1) + ... + b(n-1) *)
Fixpoint be_value (l : bytes) : N :=
  match l with
  | [] => 0
  | b :: t => b * 256 ^ N.of_nat (length t) + be_value t
  end.

Fixpoint take_while {A} (p : A -> bool) (l : list A) : list A :=
  match l with
  | [] => []
  | x :: t => if p x then x :: take_while p t else []
  end.

(* ------------------------------------------------------------------------------------------- *)
(* C16.  "for the fields declared in the drawer's header file taken in order with their declared
   widths ..., one line per field whose big-endian value is non-zero, showing the field name and the
   value zero-padded to the field width.  Fields are consumed contiguously from offset 0, and listing
   stops at the first field that does not fit in the data." *)

(* contiguous from [start]: field i begins where field i-1 ended *)
Fixpoint field_offsets (widths : list nat) (start : nat) : list nat :=
  match widths with
  | [] => []
  | w :: t => start :: field_offsets t (start + w)
  end.

(* a field placed at an absolute offset of the record *)
Definition placed := ((text * nat) * nat)%type.           (* ((name, width), offset) *)
Definition place (fields : list (text * nat)) : list placed :=
  combine fields (field_offsets (map snd fields) 0).

Definition fits (len : nat) (p : placed) : bool :=
  let '((_, w), off) := p in Nat.leb (off + w) len.

(* bytes [off, off+w) of the record *)
Definition slice (d : bytes) (off w : nat) : bytes := firstn w (skipn off d).

(* (name, width, value) of every field up to, not including, the first that does not fit *)
Definition take_fitting (fields : list (text * nat)) (d : bytes) : list (text * nat * N) :=
  map (fun p : placed => let '((name, w), off) := p in (name, w, be_value (slice d off w)))
      (take_while (fits (length d)) (place fields)).

(* name, ": 0x", exactly 2*width upper-case hex digits *)
Definition field_line (f : text * nat * N) : text :=
  let '(name, w, v) := f in name ++ L ": 0x" ++ hex_fixed hexdigU (2 * w) v.

Definition nonzero_lines (l : list (text * nat * N)) : list text :=
  map field_line (filter (fun f => negb (snd f =? 0)) l).
