(* FROZEN: effect skeletons as published.
   - the two --clean paths (reviewed: the output file is written inside its with-block and closed by leaving it BEFORE the input is
     removed; --file flushes standard output BEFORE removing, and only when something was printed);
   - the helper that opens a PEL and the per-file loops of the directory modes (reviewed: every file is opened through the helper,
     which answers None after a diagnostic for ANY OSError; everything done with a file happens inside try / except Exception whose
     handler only writes to stderr).
   Gen/CleanGen.v (extracted from the source text on every run) must equal these. *)
From Coq Require Import List NArith Bool.
From PV Require Import Base.Bytes Model.Clean.
Import ListNotations.
Open Scope N_scope.

Definition sk_json : skel :=
  (SSeq [SOpenIn; (SIfOther [102;100;32;105;115;32;78;111;110;101] (SSeq [(SReturn false)]) (SSeq [])); (STry [69;120;99;101;112;116;105;111;110] (SSeq [(SIfDecoded (SSeq [(SWithOut (SSeq [SWrite])); (SIfClean (SSeq [SRemove]) (SSeq []))]) (SSeq [SStderr]))]) (SSeq [SStderr]))]).
Definition sk_print_file : skel :=
  (SSeq [(STry [69;120;99;101;112;116;105;111;110] (SSeq [SOpenRaw; (SIfDecoded (SSeq [(SIfHex (SSeq [SPrintHex]) (SSeq [SPrint])); (SReturn true)]) (SSeq []))]) (SSeq [SStderr])); (SReturn false)]).
Definition sk_main_file : skel :=
  (SSeq [SCallPrintFile; (SIfCleanAndPrinted (SSeq [SFlush; SRemove]) (SSeq []))]).
Definition sk_openPELFile : skel :=
  (SSeq [(STry [79;83;69;114;114;111;114] (SSeq [SOpenRaw; (SReturnV [111;112;101;110;40;102;105;108;101;44;32;39;114;98;39;41])]) (SSeq [SStderr; (SReturn false)]))]).
Definition sk_extractAllPELsData : skel :=
  (SSeq [(SIfHex (SSeq []) (SSeq [SPrint])); (SLoop (SSeq [SOpenIn; (SIfOther [102;100;32;105;115;32;78;111;110;101] (SSeq [SContinue]) (SSeq [])); (STry [69;120;99;101;112;116;105;111;110] (SSeq [(SIfDecoded (SSeq [(SIfHex (SSeq [SPrintHex]) (SSeq [(SIfOther [102;105;114;115;116;80;69;76;80;114;105;110;116;101;100] (SSeq [SPrint]) (SSeq [])); SPrint]))]) (SSeq []))]) (SSeq [SStderr]))])); (SIfHex (SSeq []) (SSeq [(SIfOther [102;105;114;115;116;80;69;76;80;114;105;110;116;101;100] (SSeq [SPrint]) (SSeq [])); SPrint]))]).
Definition sk_printPELCount : skel :=
  (SSeq [(SLoop (SSeq [SOpenIn; (SIfOther [102;100;32;105;115;32;78;111;110;101] (SSeq [SContinue]) (SSeq [])); (STry [69;120;99;101;112;116;105;111;110] (SSeq [(SIfOther [110;111;116;32;114;101;116] (SSeq [SContinue]) (SSeq [])); (SIfOther [110;111;116;32;114;101;116] (SSeq [SContinue]) (SSeq [])); (SIfOther [110;111;116;32;99;111;110;115;105;100;101;114;80;69;76;40;117;104;44;32;99;111;110;102;105;103;41] (SSeq [SContinue]) (SSeq []))]) (SSeq [SStderr]))])); SPrint]).
Definition sk_extractAndSummarizePEL : skel :=
  (SSeq [SOpenIn; (SIfOther [102;100;32;105;115;32;78;111;110;101] (SSeq [(SReturnV [40;39;39;44;32;39;39;41])]) (SSeq [])); (STry [69;120;99;101;112;116;105;111;110] (SSeq [(SIfOther [101;105;100] (SSeq [(SIfHex (SSeq [SPrintHex]) (SSeq [(SReturnV [40;101;105;100;44;32;115;117;109;109;97;114;121;41])]))]) (SSeq []))]) (SSeq [SStderr])); (SReturnV [40;39;39;44;32;39;39;41])]).
Definition sk_parsePelFromPLID : skel :=
  (SSeq [(SLoop (SSeq [SOpenIn; (SIfOther [102;100;32;105;115;32;78;111;110;101] (SSeq [SContinue]) (SSeq [])); (STry [69;120;99;101;112;116;105;111;110] (SSeq [(SIfOther [101;105;100] (SSeq [(SIfOther [112;108;105;100;32;105;110;32;115;117;109;109;97;114;121;91;39;80;76;73;68;39;93] (SSeq [(SIfHex (SSeq [SPrintHex]) (SSeq []))]) (SSeq []))]) (SSeq []))]) (SSeq [SStderr]))])); (SIfHex (SSeq []) (SSeq [SPrint]))]).
Definition sk_parsePelFromSRCID : skel :=
  (SSeq [(SLoop (SSeq [SOpenIn; (SIfOther [102;100;32;105;115;32;78;111;110;101] (SSeq [SContinue]) (SSeq [])); (STry [69;120;99;101;112;116;105;111;110] (SSeq [(SIfOther [101;105;100] (SSeq [(SIfOther [99;111;110;102;105;103;46;115;114;99;32;97;110;100;32;99;111;110;102;105;103;46;115;114;99;32;105;110;32;115;117;109;109;97;114;121;91;39;83;82;67;39;93] (SSeq [(SIfHex (SSeq [SPrintHex]) (SSeq []))]) (SSeq [])); (SIfOther [99;111;110;102;105;103;46;115;114;99;69;120;99;108;117;100;101;70;105;108;101] (SSeq [(SIfOther [115;117;109;109;97;114;121;91;39;83;82;67;39;93;32;110;111;116;32;105;110;32;115;114;99;95;101;120;99;108;117;100;101;95;102;105;108;101;95;100;97;116;97] (SSeq [(SIfHex (SSeq [SPrintHex]) (SSeq []))]) (SSeq []))]) (SSeq []))]) (SSeq []))]) (SSeq [SStderr]))])); (SIfHex (SSeq []) (SSeq [SPrint]))]).
Definition sk_parsePelFromBmcID : skel :=
  (SSeq [(SLoop (SSeq [(SLoop (SSeq [(STry [69;120;99;101;112;116;105;111;110] (SSeq [SOpenRaw; (SIfOther [115;116;114;40;112;104;46;111;98;109;99;76;111;103;73;68;41;32;61;61;32;99;111;110;102;105;103;46;98;109;99;73;68] (SSeq [(SIfDecoded (SSeq [(SIfHex (SSeq [SPrintHex]) (SSeq [SPrint]))]) (SSeq [])); SBreak]) (SSeq []))]) (SSeq [SStderr]))])); SBreak])); (SIfOther [110;111;116;32;102;111;117;110;100;73;68] (SSeq [SPrint]) (SSeq []))]).
(* the two delete functions and the --id look-up: the walk stops after the top-level directory (outer break); --delete removes
   one file and stops at it (remove, then break); --delete-all removes the regular files *)
Definition sk_deleteAllPELs : skel :=
  (SSeq [(SLoop (SSeq [(SLoop (SSeq [(SIfOther [110;111;116;32;111;115;46;112;97;116;104;46;105;115;102;105;108;101;40;111;115;46;112;97;116;104;46;106;111;105;110;40;114;111;111;116;44;32;102;105;108;101;41;41] (SSeq [SContinue]) (SSeq [])); SRemove])); SBreak]))]).
Definition sk_deletePELFromPELId : skel :=
  (SSeq [(SLoop (SSeq [(SLoop (SSeq [(SIfOther [112;101;108;73;68;32;110;111;116;32;105;110;32;102;105;108;101] (SSeq [SContinue]) (SSeq [])); SRemove; SBreak])); SBreak])); (SIfOther [110;111;116;32;102;111;117;110;100;73;68] (SSeq [SPrint]) (SSeq []))]).
Definition sk_parsePelFromID : skel :=
  (SSeq [(SLoop (SSeq [(SLoop (SSeq [(SIfOther [112;101;108;73;68;32;110;111;116;32;105;110;32;102;105;108;101] (SSeq [SContinue]) (SSeq [])); SCallPrintFile; SBreak])); SBreak])); (SIfOther [110;111;116;32;102;111;117;110;100;73;68] (SSeq [SPrint]) (SSeq []))]).
