(* SPECIFICATION of the decoded document of a well-formed PEL, written from the property statements
   C01-C04 (not from the code): which key shows which stored field, in which notation.  Name tables are
   the frozen published ones.  Parser modules and the component-name registry are the environment. *)
From Coq Require Import List NArith ZArith Bool Arith.
From PV Require Import Base.Bytes Base.Lit Base.Json Base.PelTypes Spec.PublishedTables Model.Hexdump.
From PV Require Spec.Encode.
Import ListNotations.
Open Scope N_scope.



(* notations of values *)
Definition num (n : N) : json := JNum (Z.of_N n).
Definition str (s : text) : json := JStr s.
Definition hex0x (digits : nat) (v : N) : json := str (L "0x" ++ hex_fixed hexdigU digits v).   (* fixed width: value < 16^digits *)
Definition decimal (v : N) : json := str (dec v).
Definition strs (l : list text) : json := JArr (map JStr l).
Definition truefalse (b : bool) : json := str (if b then L "True" else L "False").
Definition unpadded (field : bytes) : text := strip_nul field.          (* ASCII text without its NUL padding *)

Fixpoint assoc_n (tbl : list (N * text)) (k : N) : option text :=
  match tbl with [] => None | (k', v) :: t => if k =? k' then Some v else assoc_n t k end.
Fixpoint assoc_t {V} (tbl : list (text * V)) (k : text) : option V :=
  match tbl with [] => None | (k', v) :: t => if text_eqb k k' then Some v else assoc_t t k end.
Definition coded (tbl : list (N * text)) (k : N) (fallback : text) : json :=
  str (match assoc_n tbl k with Some v => v | None => fallback end).

(* BCD timestamp bytes YY YY MM DD HH MM SS hh  ->  MM/DD/YYYY HH:MM:SS, each byte as its two hex digits *)
Definition bcd2 (b : N) : text := [hexdigL (b / 16); hexdigL (b mod 16)].
Definition bcd_time (t : bytes) : json :=
  match t with
  | [y1; y2; mo; d; h; mi; s; _] =>
      str (bcd2 mo ++ L "/" ++ bcd2 d ++ L "/" ++ bcd2 y1 ++ bcd2 y2 ++ L " " ++ bcd2 h ++ L ":" ++ bcd2 mi ++ L ":" ++ bcd2 s)
  | _ => str []
  end.

(* environment: registry names for component ids *)
(* environment: registry names for component ids, and what the message registry says about an SRC (hex words, 32-character
   reference code): the 'Error Details' entry, if a message is defined for the reason code (specified by the C03 registry theorems) *)
Record spec_env := { se_comp_name : text -> text -> option text; se_error_details : list N -> text -> list (text * json)%type }.

(* component ids: PHYP's are two ASCII characters (when both bytes are non-zero); others through the registry *)
Definition creator_subsystem (creator : N) : option text := assoc_t PublishedTables.creatorIDs [creator].
Definition component (se : spec_env) (creator : N) (comp : N) : json :=
  let hex4 := hex_fixed hexdigU 4 comp in
  str (match creator_subsystem creator with
       | Some n => if text_eqb n (L "PHYP") then
                     (if negb (comp / 256 =? 0) && negb (comp mod 256 =? 0) then [comp / 256; comp mod 256] else hex4)
                   else match se_comp_name se [creator] hex4 with Some nm => nm | None => hex4 end
       | None => match se_comp_name se [creator] hex4 with Some nm => nm | None => hex4 end
       end).

Definition common (se : spec_env) (creator : N) (h : shdr) (by_key : text) : list (text * json) :=
  [(L "Section Version", num (h_ver h)); (L "Sub-section type", num (h_sub h)); (by_key, component se creator (h_comp h))].

Definition doc_ph (se : spec_env) (p : ph_t) : list (text * json) :=
  common se (ph_creator p) (ph_hdr p) (L "Created by") ++
  [(L "Created at", bcd_time (ph_create p));
   (L "Committed at", bcd_time (ph_commit p));
   (L "Creator Subsystem", str (match creator_subsystem (ph_creator p) with Some n => n | None => L "Unknown" end));
   (L "CSSVER", str (L "0x" ++ hexU 2 (ph_cver p)));
   (L "Platform Log Id", hex0x 8 (ph_plid p));
   (L "Entry Id", hex0x 8 (ph_eid p));
   (L "BMC Event Log Id", decimal (ph_obmc p))].

(* exactly the defined action-flag bits that are on, in table order *)
Definition flags_on (flags : N) : list text :=
  map snd (filter (fun kv => negb (N.land flags (fst kv) =? 0)) PublishedTables.actionFlagsValues).

Definition doc_uh (se : spec_env) (creator : N) (u : uh_t) : list (text * json) :=
  common se creator (uh_hdr u) (L "Log Committed by") ++
  [(L "Subsystem", coded PublishedTables.subsystemValues (uh_subsys u) (L "Invalid"));
   (L "Event Scope", coded PublishedTables.eventScopeValues (uh_scope u) (L "Invalid"));
   (L "Event Severity", coded PublishedTables.severityValues (uh_sev u) (L "Invalid"));
   (L "Event Type", coded PublishedTables.eventTypeValues (uh_etype u) (L "Invalid"));
   (L "Action Flags", strs (flags_on (uh_flags u)));
   (L "Host Transmission", coded PublishedTables.transmissionStates (uh_states u mod 256) (L "Unknown"));
   (L "HMC Transmission", coded PublishedTables.transmissionStates ((uh_states u / 256) mod 256) (L "Unknown"))].

Definition doc_eh (se : spec_env) (creator : N) (h : shdr) (e : eh_t) : list (text * json) :=
  common se creator h (L "Created by") ++
  [(L "Reporting Machine Type", str (unpadded (e_mtm e)));
   (L "Reporting Serial Number", str (unpadded (e_sn e)));
   (L "FW Released Ver", str (unpadded (e_fw e)));
   (L "FW SubSys Version", str (unpadded (e_subfw e)));
   (L "Common Ref Time", bcd_time (e_reftime e));
   (L "Symptom Id Len", decimal (e_symlen e));
   (L "Symptom Id", str (unpadded (e_sym e)))].

Definition doc_mt (se : spec_env) (creator : N) (h : shdr) (t : mt_t) : list (text * json) :=
  common se creator h (L "Created by") ++
  [(L "Machine Type Model", str (unpadded (t_mtm t))); (L "Serial Number", str (unpadded (t_sn t)))].

(* every target partition id, in order *)
Definition doc_lp (se : spec_env) (creator : N) (h : shdr) (l : lp_t) : list (text * json) :=
  common se creator h (L "Created by") ++
  [(L "Primary Partition ID", hex0x 4 (l_part l));
   (L "Length of LP Name", hex0x 2 (l_namelen l));
   (L "Target LP Count", hex0x 2 (l_count l));
   (L "Logical Partition Log ID", hex0x 8 (l_logid l));
   (L "Primary Partition Name", str (rstrip_nul (l_name l)))] ++
  match l_targets l with
  | [] => []
  | ts => [(L "Target LP", JArr (map (hex0x 4) ts))]
  end.

(* ---- SRC ---- *)
Record spec_plugins := {
  sp_proc_desc : text -> text -> option json;             (* creator, procedure -> description, if a callout parser has one *)
  sp_src_details : text -> text -> list text -> option json;  (* creator, reference code, words 2..9 -> SRC details, if any *)
  sp_ud : text -> N -> N -> N -> bytes -> option (list (text * json)) }.  (* parsed user data fields, if a parser handles it *)

Definition bit (v mask : N) : bool := negb (N.land v mask =? 0).

Definition the_fru (l : list sub_t) := match l with SubFru f :: _ => Some f | _ => None end.
Definition the_pce (l : list sub_t) := match l with SubPce p :: _ => Some p | _ :: SubPce p :: _ => Some p | _ => None end.
Definition the_mru (l : list sub_t) :=
  match l with SubMru m :: _ => Some m | _ :: SubMru m :: _ => Some m | _ :: _ :: SubMru m :: _ => Some m | _ => None end.

Definition doc_callout (sp : spec_plugins) (plugins_on : bool) (creator : text) (c : callout_t) : json :=
  JObj (
    match the_fru (c_subs c) with
    | None => []
    | Some f =>
        [(L "FRU Type", coded PublishedTables.failingComponentType (N.land (f_flags f) 240) (L "Invalid"));
         (L "Priority", coded PublishedTables.calloutPriorityValues (c_prio c) (L "Invalid"))] ++
        (match unpadded (c_loc c) with [] => [] | loc => [(L "Location Code", str loc)] end) ++
        (if bit (f_flags f) 8 then [(L "Part Number", str (unpadded (f_pn f)))] else []) ++
        (if bit (f_flags f) 2 then
           (L "Procedure", str (unpadded (f_pn f))) ::
           (if plugins_on then match sp_proc_desc sp creator (unpadded (f_pn f)) with Some d => [(L "Description", d)] | None => [] end else [])
         else []) ++
        (if bit (f_flags f) 4 then [(L "CCIN", str (unpadded (f_ccin f)))] else []) ++
        (if bit (f_flags f) 1 then [(L "Serial Number", str (unpadded (f_sn f)))] else [])
    end ++
    match the_pce (c_subs c) with
    | None => []
    | Some p =>
        (match unpadded (p_mtm p) with [] => [] | mt => [(L "PCE MTMS", str (mt ++ L "_" ++ unpadded (p_sn p)))] end) ++
        (match unpadded (p_name p) with [] => [] | nm => [(L "PCE Name", str nm)] end)
    end ++
    match the_mru (c_subs c) with
    | None => []
    | Some m => [(L "MRU Id", str (join (L ",") (map (fun pi => hex_fixed hexdigU 8 (snd pi)) (m_list m))))]
    end).

Fixpoint hex_words (i : N) (ws : list N) : list (text * json) :=
  match ws with [] => [] | w :: t => (L "Hex Word " ++ dec i, str (hex_fixed hexdigU 8 w)) :: hex_words (i + 1) t end.

Definition doc_src (se : spec_env) (sp : spec_plugins) (plugins_on : bool) (creator : N) (h : shdr) (s : src_t) : list (text * json) :=
  let ty := firstn 2 (s_ascii s) in
  let bmc := text_eqb ty (L "BD") || text_eqb ty (L "11") in
  let hb := text_eqb ty (L "BC") in
  let w := fun i => nth i (s_words s) 0 in
  let shown := firstn (N.to_nat (s_wcount s) - 1) (s_words s) in
  common se creator h (L "Created by") ++
  [(L "SRC Version", str (L "0x" ++ bcd2 (s_version s)));
   (L "SRC Format", hex0x 2 (w 0%nat mod 256));
   (L "Virtual Progress SRC", truefalse (bit (s_flags s) 128));
   (L "I5/OS Service Event Bit", truefalse (bit (s_flags s) 16));
   (L "Hypervisor Dump Initiated", truefalse (bit (s_flags s) 4))] ++
  (if bmc then [(L "Backplane CCIN", str (hex_fixed hexdigU 4 (w 1%nat / 65536)));
                (L "Terminate FW Error", truefalse (bit (w 3%nat) 536870912))] else []) ++
  (if bmc || hb then [(L "Deconfigured", truefalse (bit (w 3%nat) 33554432));
                      (L "Guarded", truefalse (bit (w 3%nat) 16777216))] ++ se_error_details se (s_words s) (s_ascii s) else []) ++
  [(L "Valid Word Count", hex0x 2 (s_wcount s));
   (L "Reference Code", str (strip_ws (s_ascii s)))] ++
  hex_words 2 shown ++
  match s_callouts s with
  | None => []
  | Some cs => [(L "Callout Section",
                 JObj [(L "Callout Count", num (N.of_nat (length (cs_list cs))));
                       (L "Callouts", JArr (map (doc_callout sp plugins_on [creator]) (cs_list cs)))])]
  end ++
  (if plugins_on then
     match sp_src_details sp [creator] (s_ascii s) (map (hex_fixed hexdigU 8) shown ++ repeat (L "00000000") (8 - length shown)) with
     | Some d => [(L "SRC Details", d)]
     | None => []
     end
   else []).

(* ---- user data: C04 ---- *)
Definition dump_of (d : bytes) : json := strs (hexdump d).

Definition builtin_format (creator : text) (comp : N) : bool :=
  match assoc_t PublishedTables.creatorIDs creator with Some n => text_eqb n (L "BMC") && (comp =? 8192) | None => false end.

(* what a user-data style section shows; [None] = the statement does not fix it (JSON/plugin text is read by json.loads) *)
Definition doc_ud (se : spec_env) (sp : spec_plugins) (plugins_on : bool) (creator : text) (h : shdr) (d : bytes)
  : option (list (text * json)) :=
  let base := [(L "Section Version", num (h_ver h)); (L "Sub-section type", num (h_sub h));
               (L "Created by", component se (hd 0 creator) (h_comp h))] in
  if builtin_format creator (h_comp h) then
    if h_sub h =? 1 then None                                                   (* built-in JSON: covered by C04_builtin_json *)
    else if h_sub h =? 3 then None                                              (* built-in text: covered by C04_builtin_text *)
    else Some (base ++ [(L "Data", dump_of d)])
  else if plugins_on then
    match sp_ud sp creator (h_comp h) (h_sub h) (h_ver h) d with
    | Some fields => Some (obj_update base fields)
    | None => Some (base ++ [(L "Data", dump_of d)])
    end
  else Some (base ++ [(L "Data", dump_of d)]).

Definition doc_other (h : shdr) (d : bytes) : list (text * json) :=
  [(L "Section Version", num (h_ver h)); (L "Sub-section type", num (h_sub h));
   (L "Created by", str (L "0x" ++ hexU 2 (h_comp h))); (L "Data", dump_of d)].

(* ---- C01: names, numbering, order ---- *)
Definition name_of_id (id : N) : text :=
  match assoc_t PublishedTables.sectionNames [id / 256; id mod 256] with Some n => n | None => L "Unknown" end.

Definition occurrences (names : list text) (n : text) : nat := length (filter (text_eqb n) names).
(* the i-th name: itself when unique, otherwise suffixed with the number of earlier occurrences *)
Fixpoint number_from (all_names earlier rest : list text) : list text :=
  match rest with
  | [] => []
  | n :: t => (if Nat.eqb (occurrences all_names n) 1 then n else n ++ L " " ++ dec (N.of_nat (occurrences earlier n)))
              :: number_from all_names (earlier ++ [n]) t
  end.
Definition numbered_names (names : list text) : list text := number_from names [] names.

Definition doc_section (se : spec_env) (sp : spec_plugins) (plugins_on : bool) (creator : N) (s : section_t)
  : option (list (text * json)) :=
  match sec_body s with
  | BSrc x => Some (doc_src se sp plugins_on creator (sec_hdr s) x)
  | BEh x => Some (doc_eh se creator (sec_hdr s) x)
  | BMt x => Some (doc_mt se creator (sec_hdr s) x)
  | BLp x => Some (doc_lp se creator (sec_hdr s) x)
  | BUd d => doc_ud se sp plugins_on [creator] (sec_hdr s) d
  | BEd c _ _ d => doc_ud se sp plugins_on [c] (sec_hdr s) d
  | BOther d => Some (doc_other (sec_hdr s) d)
  end.

(* the whole document: Private Header, User Header, then one entry per optional section in log order *)
Definition doc_of (se : spec_env) (sp : spec_plugins) (plugins_on : bool) (p : pel_t) : option (list (text * json)) :=
  let creator := ph_creator (p_ph p) in
  let names := numbered_names (map (fun s => name_of_id (sec_id s)) (p_secs p)) in
  match fold_right (fun s acc => match doc_section se sp plugins_on creator s, acc with
                                 | Some d, Some t => Some (JObj d :: t) | _, _ => None end) (Some []) (p_secs p) with
  | Some docs => Some ((L "Private Header", JObj (doc_ph se (p_ph p))) :: (L "User Header", JObj (doc_uh se creator (p_uh p)))
                       :: combine names docs)
  | None => None
  end.

(* ---- C03: the registry message is filled with the referenced hex words ---- *)
(* "SRCWordN" refers to hex word N (N = 2..9), i.e. the (N-2)th of the eight stored words *)
Definition referenced_word (ws : list N) (n : N) : N := nth (N.to_nat (n - 2)) ws 0.
Definition hex_of (v : N) : text := L "0x" ++ hexL 1 v.              (* as Python's hex() *)

(* %k in the message stands for the word referenced by the k-th argument source *)
Fixpoint fill_by_number (msg : text) (vals : list text) : text :=
  match msg with
  | [] => []
  | c :: t =>
      if c =? 37 then
        match t with
        | d :: t' => if (49 <=? d) && (d <=? 57) then nth (N.to_nat (d - 49)) vals [] ++ fill_by_number t' vals
                     else c :: fill_by_number t vals
        | [] => [c]
        end
      else c :: fill_by_number t vals
  end.
