(* The published body of the loop of SRC.getCallouts over the callouts of a subsection (src.py): construct the callout from the
   stream, keep it, advance the running length by its flattened size.  Frozen; Props/C03.v proves the text extracted on every run
   equal to it (the loop condition and the part before the loop are translated and proved, C03_source_callouts_head). *)
From Coq Require Import List NArith.
From PV Require Import Base.Lit.
Import ListNotations.
Open Scope N_scope.
Definition loop_callouts : list (list N) :=
  [L "callout = Callout(self.stream)"; L "callouts.append(callout)"; L "currentLength += callout.flattenedSize()"].

(* TraceBuffer.read (io_drawer/trace.py): a fresh header object, `return False` when it cannot be read; the loop over the entries
   (condition translated and proved: C15_source_buffer_loop) whose body reads one entry and stops at the first that cannot be
   read; `return True`. *)
Definition loop_tracebuf : list (list N) :=
  [L "entry = TraceEntry()"; L "if not entry.read(stream):" ++ [10] ++ L "    break"; L "self.entries.append(entry)"].
Definition around_tracebuf : list (list N) * list (list N) :=
  ([L "self.header = TraceBufferHeader()"; L "if not self.header.read(stream):" ++ [10] ++ L "    return False"], [L "return True"]).
