(* SPECIFICATION of PEL selection, transcribed from the property statement C07 (README of peltool). *)
From Coq Require Import List NArith Bool Arith.
From PV Require Import Base.Bytes Base.PelTypes Model.Select.
Import ListNotations.
Open Scope N_scope.

(* hidden iff the not-customer-viewable action flag (0x4000) is set *)
Definition hidden (u : uh_t) : bool := N.testbit (uh_flags u) 14.
(* serviceable iff non-informational, reportable (0x2000) and not hidden, or informational with service action required (0x8000) *)
Definition serviceable (u : uh_t) : bool :=
  if uh_sev u =? 0 then N.testbit (uh_flags u) 15 else N.testbit (uh_flags u) 13 && negb (hidden u).
(* a PEL belongs to a severity group iff the high hex digit of its severity byte is the group's digit *)
Definition member (u : uh_t) (g : N) : bool := uh_sev u / 16 =? g.
Definition in_groups (c : sel_config) (u : uh_t) : bool := existsb (member u) (sevs c).
Definition terminating (u : uh_t) : bool := uh_sev u =? 81.   (* 0x51 *)

Definition any_class (c : sel_config) : bool := svc c || nsvc c || hid c.
Definition in_class (c : sel_config) (u : uh_t) : bool :=
  (svc c && serviceable u) || (nsvc c && negb (serviceable u)) || (hid c && hidden u).
(* the default set: serviceable, customer-viewable *)
Definition default_set (u : uh_t) : bool := serviceable u && negb (hidden u).

Definition select (c : sel_config) (u : uh_t) : bool :=
  if every c then true
  else if negb (only c) then
    (* each option only ADDS the PELs of that class to the default set *)
    default_set u || (term c && terminating u) || in_class c u || in_groups c u
  else
    (* --only: a chosen terminating PEL, or (some class or group chosen) and in a chosen class (if any) and group (if any) *)
    (term c && terminating u) ||
    ((any_class c || nonempty (sevs c)) && implb (any_class c) (in_class c u) && implb (nonempty (sevs c)) (in_groups c u)).
