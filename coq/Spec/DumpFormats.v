(* Specification-side renderers of the two I/O-drawer dump text formats (the repository only parses
   them).  Written from the format templates and the sample dumps in the repository's tests. *)
From Coq Require Import List NArith Bool Arith.
From PV Require Import Base.Bytes Base.Lit Model.Hexdump.
Import ListNotations.
Open Scope N_scope.

(* BMC format:      AAAA:  DDDDDDDD DDDDDDDD DDDDDDDD DDDDDDDD  <CCCCCCCCCCCCCCCC> *)
Fixpoint raw_col1 (dig : N -> N) (j : nat) (l : bytes) : text :=
  match l with
  | [] => []
  | b :: t =>
      (if negb (Nat.eqb j 0) && Nat.eqb (Nat.modulo j 4) 0 then [sp] else [])
      ++ [dig (b / 16); dig (b mod 16)] ++ raw_col1 dig (S j) t
  end.
Definition render1_line (dig : N -> N) (off : N) (l : bytes) : text :=
  hex_fixed dig 4 off ++ L ":  " ++ ljust 35 sp (raw_col1 dig 0 l) ++ L "  <" ++ ljust 16 sp (text_col l) ++ L ">" ++ [nl].
Fixpoint render1_lines (dig : N -> N) (off : N) (ls : list bytes) : list text :=
  match ls with [] => [] | l :: t => render1_line dig off l :: render1_lines dig (off + 16) t end.
Definition render1 (dig : N -> N) (d : bytes) : list text := render1_lines dig 0 (chunk 16 d).

(* pre-BMC format:  DD DD DD DD DD DD DD DD DD DD DD DD DD DD DD DD CCCCCCCCCCCCCCCC *)
Definition raw_col2 (dig : N -> N) (l : bytes) : text := flat_map (fun b => [dig (b / 16); dig (b mod 16); sp]) l.
Definition render2_line (dig : N -> N) (l : bytes) : text :=
  ljust 48 sp (raw_col2 dig l) ++ ljust 16 sp (text_col l) ++ [nl].
Definition render2 (dig : N -> N) (d : bytes) : list text := map (render2_line dig) (chunk 16 d).

Definition fmt1 : text := L "AAAA:  DDDDDDDD DDDDDDDD DDDDDDDD DDDDDDDD  <CCCCCCCCCCCCCCCC>".
Definition fmt2 : text := L "DD DD DD DD DD DD DD DD DD DD DD DD DD DD DD DD CCCCCCCCCCCCCCCC".

(* the --hex display of a PEL (peltool.printPELInHexFormat) *)
Definition pel_begin : text := L "-------------- PEL Begin  ----------------".
Definition pel_end   : text := L "-------------- PEL End    ----------------".
