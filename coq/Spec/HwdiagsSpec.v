(* Specification side of C20, written from the property text (not from the code):

     "A 12-byte hardware-diagnostics signature is shown as chip (model/EC word, 16-bit chip position,
      8-bit node), signature (16-bit id, 8-bit instance, 8-bit bit) and 8-bit attention type taken from
      exactly those byte positions ...; names and descriptions come from the chip data file when one
      exists, looked up case-insensitively, and fall back to the raw numbers otherwise, never to an
      error.  A register dump lists every chip and every register in order with its id, instance,
      address and exactly its data bytes, and the scratch-register and callout-FFDC sections reproduce
      their encoded values."

   Abstract values are numbers of the stated widths; encoders lay them out big-endian at the stated byte
   positions; the expected rendering is computed from the numbers (never from hex text slices).  The
   chip-data environment type (and its association look-up) is shared with the model. *)
From Coq Require Import List NArith ZArith Bool Arith.
From PV Require Import Base.Bytes Base.Lit Base.Json Model.Hexdump Model.Hwdiags.
Import ListNotations.
Open Scope N_scope.

(* ------------------------------------------------------------------ *)
(* signatures                                                          *)

Record asig := {
  a_model : N;   (* 32 bit: bytes 0..3  *)
  a_pos   : N;   (* 16 bit: bytes 4..5  *)
  a_node  : N;   (*  8 bit: byte  6     *)
  a_attn  : N;   (*  8 bit: byte  7     *)
  a_id    : N;   (* 16 bit: bytes 8..9  *)
  a_inst  : N;   (*  8 bit: byte  10    *)
  a_bit   : N }. (*  8 bit: byte  11    *)

Definition asig_wf (s : asig) : Prop :=
  a_model s < 2 ^ 32 /\ a_pos s < 2 ^ 16 /\ a_node s < 2 ^ 8 /\ a_attn s < 2 ^ 8 /\
  a_id s < 2 ^ 16 /\ a_inst s < 2 ^ 8 /\ a_bit s < 2 ^ 8.

Definition word_a (s : asig) : bytes := be_bytes 4 (a_model s).
Definition word_b (s : asig) : bytes := be_bytes 2 (a_pos s) ++ be_bytes 1 (a_node s) ++ be_bytes 1 (a_attn s).
Definition word_c (s : asig) : bytes := be_bytes 2 (a_id s) ++ be_bytes 1 (a_inst s) ++ be_bytes 1 (a_bit s).
Definition encode_sig (s : asig) : bytes := word_a s ++ word_b s ++ word_c s.

(* a hex word (any letter case) that spells the given bytes *)
Definition spells (w : text) (b : bytes) : Prop := map lower_c w = bytes_hex b.

(* the five things a chip-data file can say about a signature; None = that key is missing at some level *)
Definition chip_key (model : N) : text := hex_fixed hexdigL 8 model.
Definition find_chip (cd : chipdata) (model : N) : option chip := assoc cd (chip_key model).
Definition cd_type (cd : chipdata) (model : N) : option text := obind (find_chip cd model) c_type.
Definition cd_desc (cd : chipdata) (model : N) : option text := obind (find_chip cd model) c_desc.
Definition cd_attn (cd : chipdata) (model attn : N) : option text :=
  obind (find_chip cd model) (fun c => assoc (c_attn c) (dec attn)).
Definition cd_sig (cd : chipdata) (model id : N) : option sigent :=
  obind (find_chip cd model) (fun c => assoc (c_sigs c) (hex_fixed hexdigL 4 id)).
Definition cd_signame (cd : chipdata) (model id : N) : option text := option_map sg_name (cd_sig cd model id).
Definition cd_sigbit (cd : chipdata) (model id bit : N) : option text :=
  obind (cd_sig cd model id) (fun e => assoc (sg_bits e) (dec bit)).

(* rendering from optional names; None gives the raw number *)
Definition chip_text (ty desc : option text) (model node pos : N) : text :=
  L "node " ++ dec node ++ L " " ++ odflt ty (L "unknown") ++ L " " ++ dec pos
  ++ L " (" ++ odflt desc (hex_fixed hexdigU 8 model) ++ L ")".
Definition sig_text (name bitdesc : option text) (id inst bit : N) : text :=
  odflt name (L "id:" ++ hex_fixed hexdigU 4 id) ++ L "(" ++ dec inst ++ L ")[" ++ dec bit ++ L "] " ++ odflt bitdesc [].
Definition attn_text (name : option text) (attn : N) : text := odflt name (dec attn).

Definition sig_fields (chipt sigt attnt : text) : list (text * json) :=
  [(L "Chip Desc", JStr chipt); (L "Signature", JStr sigt); (L "Attn Type", JStr attnt)].

Definition sig_render (cd : chipdata) (s : asig) : list (text * json) :=
  sig_fields
    (chip_text (cd_type cd (a_model s)) (cd_desc cd (a_model s)) (a_model s) (a_node s) (a_pos s))
    (sig_text (cd_signame cd (a_model s) (a_id s)) (cd_sigbit cd (a_model s) (a_id s) (a_bit s)) (a_id s) (a_inst s) (a_bit s))
    (attn_text (cd_attn cd (a_model s) (a_attn s)) (a_attn s)).

(* what is shown when no chip data applies: only the numbers *)
Definition sig_render_raw (s : asig) : list (text * json) :=
  sig_fields (chip_text None None (a_model s) (a_node s) (a_pos s))
             (sig_text None None (a_id s) (a_inst s) (a_bit s))
             (attn_text None (a_attn s)).

(* ---- signature list: 4-byte count, then the signatures ---- *)
Definition encode_siglist (l : list asig) : bytes := be_bytes 4 (N.of_nat (length l)) ++ flat_map encode_sig l.
Definition siglist_render (cd : chipdata) (l : list asig) : json :=
  JObj [(L "Signature List", JArr (map (fun s => JObj (sig_render cd s)) l))].

(* ---- SRC: words 6..8 carry the signature; the last two characters of the 8-character reference code
        say whether this is a system checkstop ---- *)
Definition src_render (cd : chipdata) (refcode : text) (s : asig) : json :=
  JObj [(L "Primary Attention",
         JStr (if text_eqb (firstn 2 (skipn 6 refcode)) (L "10") then L "system checkstop" else L "secondary analysis"));
        (L "Signature Description", JObj (sig_render cd s))].

(* ------------------------------------------------------------------ *)
(* register dumps                                                      *)

Record areg := { r_id : N; r_inst : N; r_data : bytes }.                 (* 24-bit id, 8-bit instance, 1..255 data bytes *)
Record achip := { h_model : N; h_pos : N; h_node : N; h_regs : list areg }.

Definition areg_wf (r : areg) : Prop :=
  r_id r < 2 ^ 24 /\ r_inst r < 2 ^ 8 /\ (1 <= length (r_data r) <= 255)%nat /\ Forall (fun b => b < 256) (r_data r).
Definition achip_wf (h : achip) : Prop :=
  h_model h < 2 ^ 32 /\ h_pos h < 2 ^ 16 /\ h_node h < 2 ^ 8 /\
  N.of_nat (length (h_regs h)) < 2 ^ 32 /\ Forall areg_wf (h_regs h).
Definition regdump_wf (l : list achip) : Prop := N.of_nat (length l) < 2 ^ 32 /\ Forall achip_wf l.

Definition encode_reg (r : areg) : bytes :=
  be_bytes 3 (r_id r) ++ be_bytes 1 (r_inst r) ++ be_bytes 1 (N.of_nat (length (r_data r))) ++ r_data r.
Definition encode_chip (h : achip) : bytes :=
  be_bytes 4 (h_model h) ++ be_bytes 2 (h_pos h) ++ be_bytes 1 (h_node h)
  ++ be_bytes 4 (N.of_nat (length (h_regs h))) ++ flat_map encode_reg (h_regs h).
Definition encode_regdump (l : list achip) : bytes := be_bytes 4 (N.of_nat (length l)) ++ flat_map encode_chip l.

Definition cd_reg (cd : chipdata) (model id : N) : option regent :=
  obind (find_chip cd model) (fun c => assoc (c_regs c) (hex_fixed hexdigL 6 id)).
Definition cd_regname (cd : chipdata) (model id : N) : option text := option_map rg_name (cd_reg cd model id).
Definition cd_regaddr (cd : chipdata) (model id inst : N) : option text :=
  obind (cd_reg cd model id) (fun e => assoc (rg_addrs e) (dec inst)).

(* the data bytes, two per group, upper-case hex *)
Fixpoint data_groups (d : bytes) : list text :=
  match d with
  | [] => []
  | [b] => [hex_fixed hexdigU 2 b]
  | b1 :: b2 :: t => (hex_fixed hexdigU 2 b1 ++ hex_fixed hexdigU 2 b2) :: data_groups t
  end.

Definition pad25 (s : text) : text := let c := firstn 25 s in c ++ repeat 32 (25 - length c).

(* address: the number the data file gives (hex text), 0 when it gives none *)
Definition reg_text (name : option text) (addr : N) (r : areg) : text :=
  L "  " ++ pad25 (odflt name (L "id:" ++ hex_fixed hexdigU 6 (r_id r) ++ L " inst:" ++ dec (r_inst r)))
  ++ L " (0x" ++ hexU 8 addr ++ L ") " ++ join (L " ") (data_groups (r_data r)).

Definition reg_addr_ok (cd : chipdata) (model : N) (r : areg) : Prop :=
  match cd_regaddr cd model (r_id r) (r_inst r) with Some a => parse_addr a <> None | None => True end.
Definition reg_addr (cd : chipdata) (model : N) (r : areg) : N :=
  match cd_regaddr cd model (r_id r) (r_inst r) with Some a => odflt (parse_addr a) 0 | None => 0 end.

Definition reg_render (cd : chipdata) (model : N) (r : areg) : text :=
  reg_text (cd_regname cd model (r_id r)) (reg_addr cd model r) r.

Definition chip_header (cd : chipdata) (h : achip) : text :=
  let t := chip_text (cd_type cd (h_model h)) (cd_desc cd (h_model h)) (h_model h) (h_node h) (h_pos h) ++ L " " in
  t ++ repeat 42 (60 - length t).

Definition chip_render (cd : chipdata) (h : achip) : list text :=
  chip_header cd h :: map (reg_render cd (h_model h)) (h_regs h).

Definition regdump_render (cd : chipdata) (l : list achip) : json :=
  JObj [(L "Register Dump", JArr (map JStr (flat_map (chip_render cd) l)))].

Definition regdump_addrs_ok (cd : chipdata) (l : list achip) : Prop :=
  Forall (fun h => Forall (reg_addr_ok cd (h_model h)) (h_regs h)) l.

(* reading the data column back: drop the blanks, take the digits in pairs *)
Fixpoint unhex (s : text) : bytes :=
  match s with
  | h :: l :: t => (hexval h * 16 + hexval l) :: unhex t
  | _ => []
  end.
Definition data_back (s : text) : bytes := unhex (filter (fun c => negb (c =? 32)) s).

(* ------------------------------------------------------------------ *)
(* scratch registers, scratch-register signature, callout FFDC         *)

Definition hx (n : nat) (v : N) : json := JStr (L "0x" ++ hex_fixed hexdigL (2 * n) v).
Definition hxt (n : nat) (v : N) : text := L "0x" ++ hex_fixed hexdigL (2 * n) v.

(* cfam address/value 32 bit, scom address/value 64 bit *)
Definition encode_scratch (ca cv sa sv : N) : bytes := be_bytes 4 ca ++ be_bytes 4 cv ++ be_bytes 8 sa ++ be_bytes 8 sv.
Definition scratch_render (ca cv sa sv : N) : json :=
  JObj [(L "Hostboot Scratch Registers", JObj [(hxt 4 ca, hx 4 cv); (hxt 8 sa, hx 8 sv)])].

Definition encode_scratch_sig (chipid sigid : N) : bytes := be_bytes 4 chipid ++ be_bytes 4 sigid.
Definition scratch_sig_render (chipid sigid : N) : json :=
  JObj [(L "Scratch Register Error Signature", JObj [(L "Chip ID", hx 4 chipid); (L "Signature ID", hx 4 sigid)])].

(* the FFDC payload is JSON text, UTF-8, NUL-terminated (any number of NULs); shown is what that text
   denotes ({"@loads": t} = the value json.loads gives for t) *)
Definition ffdc_render (t : text) : hw_result := ffdc_of_text t.

(* a chip-data environment all of whose register addresses are hex numbers *)
Definition cd_addrs_wf (cd : chipdata) : Prop :=
  Forall (fun kc => Forall (fun ke => Forall (fun ia => parse_addr (snd ia) <> None) (rg_addrs (snd ke)))
                           (c_regs (snd kc))) cd.
