(* C17, specification side: written from the property text, not from dump.py.

   "the ILOG region is everything before the earliest recognised trace-buffer header (the 4-byte header
    start followed by one of the six buffer names) and each trace region runs from its header to the next
    recognised header or the end, so the regions cover every byte exactly once and are reported in address
    order, each under its own heading, decoded exactly as the stand-alone ILOG and trace decoders would
    decode those bytes."

   "Recognised header" is read as the repository's tests pin it: the FIRST occurrence of each of the six
   byte patterns; a later occurrence of the same pattern is data of the region it lies in.
   Nothing here uses a search routine or a sort: the recognised offsets are obtained by testing every
   position 0..length in increasing order ([spec_offsets], quadratic, only meant to be obviously right). *)
From Coq Require Import List NArith Bool Arith.
From PV Require Import Base.Bytes Base.Lit Model.Ilog Model.Trace Model.Dump.
Import ListNotations.
Open Scope N_scope.

(* ---------- published constants (agreement with /repo is a theorem in Props/C17.v) ---------- *)
Definition spec_header_start : bytes := [2; 32; 1; 66].            (* ver 2, hdr_len 32, time_flg 1, endian 'B' *)
Definition spec_buffer_names : list text := [L "IICS"; L "IICM"; L "POWR"; L "FANS"; L "INFO"; L "ERRL"].
Definition spec_patterns : list bytes := map (fun n => spec_header_start ++ n) spec_buffer_names.
Definition spec_divider : text := repeat 45 73.                    (* 73 dashes *)

(* ---------- occurrences ---------- *)
Definition occurs_at (p d : bytes) (i : nat) : Prop := exists pre post, d = pre ++ p ++ post /\ length pre = i.
Definition first_at (p d : bytes) (i : nat) : Prop := occurs_at p d i /\ forall j, occurs_at p d j -> (i <= j)%nat.
Definition recognised (pats : list bytes) (d : bytes) (i : nat) : Prop := exists p, In p pats /\ first_at p d i.

(* the same, decidable: position by position *)
Fixpoint starts_with (p s : bytes) : bool :=
  match p, s with
  | [], _ => true
  | x :: p', y :: s' => (x =? y) && starts_with p' s'
  | _ :: _, [] => false
  end.
Definition occursb (p d : bytes) (i : nat) : bool := Nat.leb i (length d) && starts_with p (skipn i d).
Definition firstb (p d : bytes) (i : nat) : bool := occursb p d i && forallb (fun j => negb (occursb p d j)) (seq 0 i).
Definition recognisedb (pats : list bytes) (d : bytes) (i : nat) : bool := existsb (fun p => firstb p d i) pats.

(* all recognised offsets, in address order *)
Definition spec_offsets (pats : list bytes) (d : bytes) : list nat :=
  filter (recognisedb pats d) (seq 0 (S (length d))).

(* ---------- regions ---------- *)
(* bytes [b, e) of the dump *)
Definition piece (d : bytes) (be : nat * nat) : bytes := firstn (snd be - fst be) (skipn (fst be) d).

Section Regions.
  Variable pats : list bytes.
  (* everything before the earliest recognised header (everything when there is none) *)
  Definition ilog_region (d : bytes) : bytes := firstn (hd (length d) (spec_offsets pats d)) d.
  (* from each recognised header to the next one, the last to the end *)
  Definition trace_regions (d : bytes) : list bytes :=
    let offs := spec_offsets pats d in map (piece d) (combine offs (tl (offs ++ [length d]))).
End Regions.

(* ---------- the report ---------- *)
Definition section (title : text) (body : list text) : list text :=
  [title; []] ++ body ++ [[]; spec_divider; []].

(* [parse_ilog] / [parse_trace] are the stand-alone decoders (characterised by C14 / C15) *)
Definition spec_dump (pats : list bytes) (ptes : list pte_entry) (strs : list tstring) (d : bytes) : dump_res :=
  match d with
  | [] => DumpOk []
  | _ =>
      match parse_ilog ptes (ilog_region pats d) with
      | IOk ls =>
          if forallb (trace_supported strs) (trace_regions pats d)
          then DumpOk (section (L "ILOG") ls
                       ++ flat_map (fun r => section (L "Trace") (parse_trace strs r)) (trace_regions pats d))
          else DumpUnsupported
      | IUnsupported => DumpUnsupported
      | IAssert => DumpRaise
      | IOutOfFuel => DumpOutOfFuel
      end
  end.

(* two patterns that could overlap in a dump: q (or its beginning) lies inside p shifted by k, 0 < k < |p| *)
Definition clash (p q : bytes) (k : nat) : bool := starts_with (skipn k p) q || starts_with q (skipn k p).
Definition no_overlap (pats : list bytes) : bool :=
  forallb (fun p => forallb (fun q => forallb (fun k => negb (clash p q k)) (seq 1 (length p - 1))) pats) pats.
(* pairwise different patterns of one common length: no two of them occur at the same offset *)
Fixpoint pairwise_distinct (pats : list bytes) : bool :=
  match pats with
  | [] => true
  | p :: t => forallb (fun q => negb (text_eqb p q)) t && pairwise_distinct t
  end.
Definition same_length (pats : list bytes) : bool :=
  match pats with [] => true | p :: t => forallb (fun q => Nat.eqb (length q) (length p)) t end.
Definition separated (pats : list bytes) : bool := pairwise_distinct pats && same_length pats.

(* ---------- layouts (input generator for the harness, built from a choice sequence) ----------
   A layout is a sequence of items; its bytes are the concatenation of the items' bytes.  Filler items never
   contain the byte 2 except as the first byte of a complete eight-byte near miss or of a four-byte broken
   start, so a pattern can only begin at a [Header] item: the intended regions are known by construction.
   A [Header] whose name was already used is data of the region it lies in. *)
Inductive item :=
| Fill (b : bytes)            (* arbitrary bytes other than 2 *)
| Name (k : nat)              (* a buffer name without the header start (may lie in ILOG data) *)
| NearMiss (k : nat)          (* header start + first three letters of name k + 'x' *)
| BrokenStart                 (* 02 20 01 43 *)
| Header (k : nat).           (* header start + name k : a trace buffer begins here *)

Definition name_of (k : nat) : text := nth (Nat.modulo k 6) spec_buffer_names [].
Definition sanitize (b : N) : N := let b := b mod 256 in if b =? 2 then 3 else b.
Definition item_bytes (it : item) : bytes :=
  match it with
  | Fill b => map sanitize b
  | Name k => name_of k
  | NearMiss k => spec_header_start ++ firstn 3 (name_of k) ++ [120]
  | BrokenStart => [2; 32; 1; 67]
  | Header k => spec_header_start ++ name_of k
  end.

(* choice sequence -> items.  c mod 8 : 0,1 Fill (next byte = length, then that many bytes) ; 2 Name ; 3 NearMiss ;
   4 BrokenStart ; 5,6,7 Header.  The operand of Name/NearMiss/Header is the next byte. *)
Fixpoint items_of (fuel : nat) (cs : list N) : list item :=
  match fuel with
  | O => []
  | S f =>
      match cs with
      | [] => []
      | c :: t =>
          let op := N.to_nat (c mod 8) in
          let operand := N.to_nat (hd 0 t) in
          if Nat.leb op 1 then Fill (firstn operand (tl t)) :: items_of f (skipn operand (tl t))
          else if Nat.eqb op 2 then Name operand :: items_of f (tl t)
          else if Nat.eqb op 3 then NearMiss operand :: items_of f (tl t)
          else if Nat.eqb op 4 then BrokenStart :: items_of f t
          else Header operand :: items_of f (tl t)
      end
  end.

Definition layout_bytes (its : list item) : bytes := flat_map item_bytes its.

(* intended regions, ILOG first: a new region starts at every Header whose name is new *)
Fixpoint layout_regions (its : list item) (seen : list nat) (cur : bytes) : list bytes :=
  match its with
  | [] => [cur]
  | Header k :: t =>
      let k6 := Nat.modulo k 6 in
      if existsb (Nat.eqb k6) seen then layout_regions t seen (cur ++ item_bytes (Header k))
      else cur :: layout_regions t (k6 :: seen) (item_bytes (Header k))
  | it :: t => layout_regions t seen (cur ++ item_bytes it)
  end.

Definition dump_gen (cs : list N) : bytes * list bytes :=
  let its := items_of (length cs) cs in (layout_bytes its, layout_regions its [] []).
