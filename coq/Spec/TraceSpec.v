(* C15, specification side: written from the property text, not from trace.py.
   An abstract trace buffer is a header plus a list of abstract entries; [encode_buffer] lays it out as the
   firmware does (fixed 16 bytes, data, pad to a multiple of 4, trailing total-size word).  The display of
   one entry ([show_entry]) chooses the message as the text says: the first string with the same hash, else
   the LAST string whose hash agrees modulo 100000 (+ warning + dump), else a notice (+ dump); binary
   entries always show their data.  [shown_entries] says which entries are displayed for arbitrary bytes. *)
From Coq Require Import List NArith Bool Arith.
From PV Require Import Base.Bytes Base.Lit Model.Hexdump Model.TraceFmt Model.Trace.
Import ListNotations.
Open Scope N_scope.

(* ---------- published constants (agreement with /repo is a theorem in Props/C15.v) ---------- *)
Definition spec_HDR_SIZE : N := 32.
Definition spec_FIXED_SIZE : N := 16.
Definition spec_MAX_DATA_LEN : N := 1024.
Definition spec_TYPE_FIELDTRACE : N := 18004.     (* 0x4654 "FT" *)
Definition spec_TYPE_FIELDBIN : N := 17988.       (* 0x4644 "FD" *)
Definition spec_MAX_ARGS : N := 5.
Definition spec_BUFFER_NAMES : list text := [L "IICS"; L "IICM"; L "POWR"; L "FANS"; L "INFO"; L "ERRL"].

(* ---------- abstract buffers ---------- *)
Record aentry := mkAEntry {
  ae_tbh : N; ae_tbl : N; ae_tag : N; ae_hash : N; ae_line : N;
  ae_data : bytes;
  ae_pad : bytes }.                                  (* content of the alignment bytes (not displayed) *)

Record abuffer := mkABuffer {
  ab_ver : N; ab_hdr_len : N; ab_time_flg : N; ab_endian_flg : N;
  ab_comp : bytes;                                   (* 12 bytes *)
  ab_reserved : bytes;                               (* 4 bytes *)
  ab_size : N; ab_wrap : N; ab_next_free : N;
  ab_entries : list aentry }.

Definition is_byteb (b : N) : bool := b <? 256.
Definition pad_len (n : nat) : nat := Nat.modulo (4 - Nat.modulo n 4) 4.
Definition entry_size (e : aentry) : nat := (16 + length (ae_data e) + length (ae_pad e) + 4)%nat.

Definition encode_entry (e : aentry) : bytes :=
  be_bytes 2 (ae_tbh e) ++ be_bytes 2 (ae_tbl e) ++ be_bytes 2 (N.of_nat (length (ae_data e)))
  ++ be_bytes 2 (ae_tag e) ++ be_bytes 4 (ae_hash e) ++ be_bytes 4 (ae_line e)
  ++ ae_data e ++ ae_pad e ++ be_bytes 4 (N.of_nat (entry_size e)).

Definition wf_entryb (e : aentry) : bool :=
  (ae_tbh e <? 65536) && (ae_tbl e <? 65536) && (ae_tag e <? 65536)
  && (ae_hash e <? 4294967296) && (ae_line e <? 4294967296)
  && forallb is_byteb (ae_data e) && forallb is_byteb (ae_pad e)
  && Nat.leb (length (ae_data e)) 1024
  && Nat.eqb (length (ae_pad e)) (pad_len (length (ae_data e))).
Definition wf_entry (e : aentry) : Prop := wf_entryb e = true.

Definition encode_header (b : abuffer) : bytes :=
  [ab_ver b; ab_hdr_len b; ab_time_flg b; ab_endian_flg b] ++ ab_comp b ++ ab_reserved b
  ++ be_bytes 4 (ab_size b) ++ be_bytes 4 (ab_wrap b) ++ be_bytes 4 (ab_next_free b).
Definition encode_buffer (b : abuffer) : bytes := encode_header b ++ flat_map encode_entry (ab_entries b).

(* every entry begins before the declared buffer size *)
Fixpoint all_start_before (size idx : N) (es : list aentry) : bool :=
  match es with
  | [] => true
  | e :: t => (idx <? size) && all_start_before size (idx + N.of_nat (entry_size e)) t
  end.

Definition wf_headerb (b : abuffer) : bool :=
  is_byteb (ab_ver b) && is_byteb (ab_hdr_len b) && is_byteb (ab_time_flg b) && is_byteb (ab_endian_flg b)
  && Nat.eqb (length (ab_comp b)) 12 && forallb is_byteb (ab_comp b)
  && Nat.eqb (length (ab_reserved b)) 4 && forallb is_byteb (ab_reserved b)
  && (ab_size b <? 4294967296) && (ab_wrap b <? 4294967296) && (ab_next_free b <? 4294967296).
Definition wf_bufferb (b : abuffer) : bool :=
  wf_headerb b && forallb wf_entryb (ab_entries b) && all_start_before (ab_size b) 32 (ab_entries b).
Definition wf_buffer (b : abuffer) : Prop := wf_bufferb b = true.

(* ---------- what is displayed ---------- *)
Definition entry_of (e : aentry) : entry :=
  mkEntry (ae_tbh e) (ae_tbl e) (N.of_nat (length (ae_data e))) (ae_tag e) (ae_hash e) (ae_line e) (ae_data e).

(* header lines from the raw first 32 bytes: component from bytes 4..15, version from byte 0,
   size from bytes 20..23, wrap count from bytes 24..27 *)
Definition shown_header (d : bytes) : list text :=
  [ L "Component: " ++ comp_text (firstn 12 (skipn 4 d));
    L "Version: " ++ dec (nth 0 d 0);
    L "Size: " ++ dec (be_val (firstn 4 (skipn 20 d)) 0);
    L "Times Wrapped: " ++ dec (be_val (firstn 4 (skipn 24 d)) 0);
    [];
    L "HH:MM:SS Seq  Line  Entry Data";
    L "-------- ---- ----- ----------" ].

(* message choice *)
Definition same_hash (h : N) (s : tstring) : bool := ts_hash s =? h.
Definition same_low_digits (h : N) (s : tstring) : bool :=
  negb (ts_hash s =? h) && (ts_hash s mod 100000 =? h mod 100000).
Definition exact_match (tbl : list tstring) (h : N) : option tstring := List.find (same_hash h) tbl.
Definition partial_matches (tbl : list tstring) (h : N) : list tstring := filter (same_low_digits h) tbl.
Definition last_opt {A} (l : list A) : option A := match rev l with [] => None | x :: _ => Some x end.

(* up to five 32-bit big-endian arguments: the complete 4-byte words of the data, at most five *)
Definition words_of (data : bytes) : list N :=
  map (fun w => be_val w 0) (firstn 5 (filter (fun w => Nat.eqb (length w) 4) (chunk 4 data))).
Definition is_binary (e : entry) : bool := e_tag e =? spec_TYPE_FIELDBIN.
Definition args_of (e : entry) : list N := if is_binary e then [] else words_of (e_data e).

(* the string an entry is displayed with, and whether it is only a partial match *)
Definition chosen (tbl : list tstring) (h : N) : option (tstring * bool) :=
  match exact_match tbl h with
  | Some s => Some (s, false)
  | None => match last_opt (partial_matches tbl h) with
            | Some s => Some (s, true)
            | None => None
            end
  end.

Definition show_with (c : option (tstring * bool)) (e : entry) : list text :=
  match c with
  | Some (s, false) =>
      entry_line e (get_message (ts_format s) (args_of e)) :: (if is_binary e then dump_of e else [])
  | Some (s, true) => entry_line e (get_message (ts_format s) (args_of e)) :: warning_line s :: dump_of e
  | None => entry_line e (no_string_msg (e_hash e)) :: dump_of e
  end.
Definition show_entry (tbl : list tstring) (e : entry) : list text := show_with (chosen tbl (e_hash e)) e.

Definition expected_lines (tbl : list tstring) (b : abuffer) : list text :=
  shown_header (encode_header b) ++ flat_map (fun e => show_entry tbl (entry_of e)) (ab_entries b).

(* the same with one table search per entry, together with "every conversion is inside the modelled
   fragment of %-formatting" (what the extracted binary evaluates for the harness) *)
Definition spec_answer (tbl : list tstring) (b : abuffer) : bool * list text :=
  let r := fold_right (fun a acc =>
                         let e := entry_of a in
                         let c := chosen tbl (e_hash e) in
                         ((match c with Some (s, _) => fmt_supported (ts_format s) (args_of e) | None => true end) && fst acc,
                          show_with c e ++ snd acc)) (true, []) (ab_entries b) in
  (fst r, shown_header (encode_header b) ++ snd r).

(* ---------- which entries are displayed for arbitrary bytes ---------- *)
(* [d] begins with a well-framed entry [e], followed by [rest] *)
Definition framed (d : bytes) (e : aentry) (rest : bytes) : Prop := wf_entry e /\ d = encode_entry e ++ rest.

(* the entries displayed when decoding [d] from stream offset [idx] with declared buffer size [size]:
   the longest run of well-framed entries each of which begins before [size] *)
Inductive shown_entries (size : N) : N -> bytes -> list aentry -> Prop :=
| se_size idx d : size <= idx -> shown_entries size idx d []
| se_bad idx d : idx < size -> (forall e rest, ~ framed d e rest) -> shown_entries size idx d []
| se_step idx d e rest es : idx < size -> framed d e rest ->
    shown_entries size (idx + N.of_nat (entry_size e)) rest es -> shown_entries size idx d (e :: es).

(* the ways an entry can fail to be well framed, on the raw fields *)
Definition raw_len (d : bytes) : N := be_val (firstn 2 (skipn 4 d)) 0.
Definition raw_span (d : bytes) : N := 16 + raw_len d + N.of_nat (pad_len (N.to_nat (raw_len d))) + 4.
Definition raw_trailer (d : bytes) : N := be_val (firstn 4 (skipn (N.to_nat (raw_span d) - 4) d)) 0.
Inductive unframed (d : bytes) : Prop :=
| uf_truncated_fixed : (length d < 16)%nat -> unframed d
| uf_oversized : (16 <= length d)%nat -> 1024 < raw_len d -> unframed d
| uf_truncated : (16 <= length d)%nat -> raw_len d <= 1024 -> N.of_nat (length d) < raw_span d -> unframed d
| uf_trailer : (16 <= length d)%nat -> raw_len d <= 1024 -> raw_span d <= N.of_nat (length d) ->
    raw_trailer d <> raw_span d -> unframed d.

(* ---------- a concrete well-formed buffer (non-vacuity example of Props/C15.v) ---------- *)
Definition example_table : list tstring :=
  [ mkTString 1200042 (L "first %d") (L "a.c(12)");
    mkTString 3400042 (L "value 0x%04X and %u") (L "b.c(34)");
    mkTString 5600042 (L "last partial %c") (L "c.c(56)") ].
Definition example_buffer : abuffer :=
  mkABuffer 1 32 0 66 (L "POWR" ++ repeat 0 8) [0; 0; 0; 0] 132 2 0
    [ mkAEntry 3661 1 18004 3400042 34 [0; 0; 0; 171; 0; 0; 0; 7] [];
      mkAEntry 65535 2 18004 7800042 78 [65; 66; 67] [255];
      mkAEntry 0 3 18004 99 1 [] [];
      mkAEntry 10 4 17988 1200042 12 [1; 2; 3; 4; 5] [0; 0; 0] ].
