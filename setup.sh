#!/bin/sh
# Build the framework offline: regenerate coq/Gen from /repo, compile every Coq file, extract, build the model binary.
set -e
cd "$(dirname "$0")"
mkdir -p build/ocaml coq/Gen evidence
PYTHONPATH=/repo/modules PYTHONHASHSEED=0 PYTHONDONTWRITEBYTECODE=1 PYTHONWARNINGS=ignore \
  /venv/bin/python harness/extract_tables.py coq/Gen/Tables.v
PYTHONPATH=/repo/modules PYTHONHASHSEED=0 PYTHONDONTWRITEBYTECODE=1 PYTHONWARNINGS=ignore \
  /venv/bin/python harness/extract_io_tables.py coq/Gen/IoTables.v
/venv/bin/python harness/translate_select.py coq/Gen/SelectGen.v
/venv/bin/python harness/extract_layouts.py coq/Gen/Layouts.v
/venv/bin/python harness/extract_dispatch.py coq/Gen/Dispatch.v
/venv/bin/python harness/extract_clean.py coq/Gen/CleanGen.v
/venv/bin/python harness/extract_readers.py coq/Gen/Readers.v
/venv/bin/python harness/extract_datastream.py coq/Gen/DataStreamGen.v
/venv/bin/python harness/extract_sections.py coq/Gen/Sections.v
PYTHONPATH=/repo/modules PYTHONHASHSEED=0 PYTHONDONTWRITEBYTECODE=1 PYTHONWARNINGS=ignore \
  /venv/bin/python harness/extract_regexes.py coq/Gen/Regexes.v
cd coq
coq_makefile -f _CoqProject -o Makefile >/dev/null
timeout 3000 make -k -j16 >/dev/null 2>../build/make.err || { tail -30 ../build/make.err; echo "setup: some Coq files failed (the affected checks will report it)"; }
cd ../build/ocaml
rm -f pelmodel.mli
cp ../../ocaml/driver.ml .
if [ -f pelmodel.ml ]; then ocamlfind ocamlopt -w -a -package str pelmodel.ml driver.ml -o pelmodel; fi
echo "setup done"
